"""Pristine reference server: a separately exec'd interpreter (different PYTHONHASHSEED,
different id offset) that has imported flowpaths and done nothing else; every request is
evaluated in a fresh fork of it, so no request sees another.  Used by C18 for the
'result depends only on its arguments' oracle."""
import json
import os
import subprocess
import sys

VERIF = os.path.dirname(os.path.dirname(os.path.abspath(__file__)))
_SERVER = None


def start(hashseed):
    global _SERVER
    if _SERVER is not None:
        return _SERVER
    env = dict(os.environ)
    env["PYTHONHASHSEED"] = str(hashseed % (2 ** 32))
    _SERVER = subprocess.Popen(["/venv/bin/python", "-B", "-W", "ignore", os.path.join(VERIF, "sim_main.py"), "--role", "refserver"],
                               stdin=subprocess.PIPE, stdout=subprocess.PIPE, env=env, text=True, bufsize=1)
    return _SERVER


def stop():
    global _SERVER
    if _SERVER is not None:
        try:
            _SERVER.stdin.close()
            _SERVER.wait(timeout=5)
        except Exception:
            _SERVER.kill()
        _SERVER = None


def evaluate(request):
    """Called from a run child (which inherited the pipes; runs are sequential per batch)."""
    if _SERVER is None:
        raise RuntimeError("reference server not started")
    _SERVER.stdin.write(json.dumps(request) + "\n")
    _SERVER.stdin.flush()
    line = _SERVER.stdout.readline()
    if not line:
        raise RuntimeError("reference server died")
    return json.loads(line)


def serve():
    """Server loop (role refserver)."""
    from . import world as W
    from . import runner
    W.install()
    import importlib
    for line in sys.stdin:
        line = line.strip()
        if not line:
            continue
        req = json.loads(line)
        mod = importlib.import_module(req["module"])
        fn = getattr(mod, req["fn"])
        res = runner.run_in_child(lambda: fn(req["payload"]), req.get("timeout", 120))
        sys.stdout.write(json.dumps(res) + "\n")
        sys.stdout.flush()
