"""C10 - constraints are contained in a single returned route (decided part); ignore /
scale-0 / additional start-end relations are monitored on the same runs."""
import copy
import json
import random

from props import c01 as base
from props import modelruns as mr
from sim import models
from sim import world as W
from sim.core import H, Violation

ID = "C10"
LEVEL = "exploration"
BATCH = 6
QUICK_WORLDS = 288
THOROUGH_BUDGET_S = 900
RUN_TIMEOUT = 120
CLASSES = [c for c in mr.ALL_CLASSES if c != "NumPathsOptimization"]
RULE = ("world = (model class with subpath/subset constraints: contiguous, gapped, overlapping, duplicated; coverage 1 / 0.75 / 0.5 or "
        "length coverage; swarm of options) from the seed, solved under canonical / alt / alt+noise replies; containment of each "
        "constraint in a single returned route is recomputed from the routes.  Additionally (monitored, input-sampled): a run with an "
        "ignored element re-weighted, or with extra start/end nodes, is compared with the base run.  distinct = (class, mode, options, "
        "instance, constraints, reply); non-trivial = solved with >= 1 constraint and a delivered reply different from the canonical one.")
COMPONENTS = base.COMPONENTS
ASSUMPTIONS = base.ASSUMPTIONS + ["coverage comparison with 1e-9 slack", "in node mode only node-list constraints get a fraction < 1"]
TAG = "c10"


# witness of the listed known finding C10.ignored_element_has_influence (repetition bound taken from an ignored edge)
PINNED = [json.loads('''{"world": {"args": {"additional_ends": ["a.0"], "additional_starts": ["a.0"], "elements_to_ignore": [["a", "A"]], "k": 2, "optimization_options": {}, "solver_options": {}, "weight_type": "float"}, "class": "kMinPathErrorCycles", "graph": {"edges": [["c", "a.0", 0.20999999999999996], ["a.0", "c", 2.21], ["A", "c", 3.21], ["a", "A", 7.17], ["A", "n_1", 7.17], ["n_1", "source", 7.17], ["c", "A", 2.21]], "kind": "digraph", "nodes": ["c", "a.0", "A", "a", "n_1", "source"], "routes": [["a", "A", "n_1", "source"], ["a", "A", "n_1", "source"], ["a", "A", "c", "a.0", "c", "A", "n_1", "source"]], "weights": [2.811, 2.149, 2.21], "zero_flow_edges": []}}, "sim": {"faults": [], "latency": "instant", "reply": "canonical", "reply_seed": 458099575}, "monitor": true}''')]


def gen_world(seed, tier):
    return mr.gen_world(seed, CLASSES, want_constraints=1.0, node_p=0.2, tag=TAG, length_cov_p=0.5)


def plans(world, info, seed, tier):
    rng = random.Random(H(seed, TAG + "plans"))
    specs = []
    pols = ["canonical", "alt", "alt+noise"] if tier == "quick" else ["canonical", "alt", "alt", "alt+noise", "alt+noise", "noise"]
    for pol in pols:
        sim = {"latency": "instant", "reply": pol, "reply_seed": rng.randrange(1 << 30), "faults": []}
        if pol != "canonical" and rng.random() < 0.3:
            sim["resolve"] = 1          # solve() a second time on the same object, then read the solution
        specs.append({"world": world, "sim": sim, "monitor": pol == "canonical"})
    # the options that turn safety information into constraints of the model go through the same constraint machinery
    import copy as _copy
    w2 = _copy.deepcopy(world)
    oo = w2["args"].setdefault("optimization_options", {})
    if world["class"] in models.DAG_CLASSES:
        oo["optimize_with_safety_as_subpath_constraints"] = True
    else:
        oo.pop("optimize_with_safety_as_subset_constraints", None)
        oo.pop("optimize_with_max_safe_antichain_as_subset_constraints", None)
        oo[rng.choice(["optimize_with_safety_as_subset_constraints", "optimize_with_max_safe_antichain_as_subset_constraints"])] = True
    if world["class"] != "NumPathsOptimization":
        specs.append({"world": w2, "sim": {"latency": "instant", "reply": rng.choice(["canonical", "alt"]), "reply_seed": rng.randrange(1 << 30), "faults": []},
                      "monitor": False})
    w4 = mr.greedy_variant(world, random.Random(H(seed, TAG + "plans-greedy")))
    if w4 is not None and w4["args"].get("subpath_constraints"):
        # the greedy shortcut has to be abandoned when its paths do not meet a constraint
        specs.append({"world": w4, "sim": {"latency": "instant", "reply": "canonical", "reply_seed": 7, "faults": []}, "monitor": False})
    w3 = mr.length_variant(world, rng)
    if w3 is not None:
        specs.append({"world": w3, "sim": {"latency": "instant", "reply": rng.choice(["canonical", "alt"]), "reply_seed": rng.randrange(1 << 30), "faults": []},
                      "monitor": False})
    return specs


def _confirmed(world_a, world_b, relation):
    """Solver-truthfulness cross-check (sim/crosscheck.py): re-solve both worlds under several native solver
    configurations and evaluate ``relation(solved_a, best_a, solved_b, best_b)`` on the best objectives."""
    from sim import crosscheck

    def side(w):
        def fn(cfg):
            o, _, _ = mr.run(w, cfg, seed=1)
            return (o["solved"], o.get("objective"), o.get("solve_exc") or o.get("construct_exc"))
        return fn
    sa, ba, _ = crosscheck.best_over_configs(side(world_a), {"latency": "instant"})
    sb, bb, _ = crosscheck.best_over_configs(side(world_b), {"latency": "instant"})
    return relation(sa, ba, sb, bb), [sa, ba, sb, bb]


def _monitor(spec, out0):
    """Input-sampled relations (not the decided part): re-weighting an ignored element
    changes nothing; extra starts/ends never turn solved into unsolved nor increase a
    minimised objective."""
    vs = []
    counters = {}
    world = spec["world"]
    args = world["args"]
    cname = world["class"]
    if out0.get("construct_exc") or out0.get("solve_exc"):
        return vs, counters
    if args.get("error_scaling") and cname in ("kLeastAbsErrors", "kLeastAbsErrorsCycles"):
        # with error_scaling the value these two classes report is not the quantity they minimise
        # (reported: unscaled error sum; minimised: scaled) - objective relations are not meaningful there (C07's matter)
        counters["monitor:skipped_error_scaling"] = 1
        return vs, counters
    ign = args.get("elements_to_ignore")
    g = world["graph"]
    if ign and not mr._node_mode(world) and cname not in models.COVER_CLASSES:
        w2 = copy.deepcopy(world)
        for e in w2["graph"]["edges"]:
            if [e[0], e[1]] in ign:
                e[2] = (e[2] or 0) + 3
        out2, _, _ = mr.run(w2, spec["sim"], seed=1)
        counters["monitor:reweight_ignored"] = 1
        if not out2.get("construct_exc") and not out2.get("solve_exc"):
            if out2["solved"] != out0["solved"] or (out0["solved"] and not _close(out2.get("objective"), out0.get("objective"))):
                bad, best = _confirmed(world, w2, lambda sa, ba, sb, bb: sa != sb or (sa and not _close(ba, bb)))
                if bad:
                    vs.append(Violation(ID, "C10.ignored_element_has_influence", cname,
                                        {"base": [out0["solved"], out0.get("objective")], "reweighted": [out2["solved"], out2.get("objective")], "cross_check": best}))
                else:
                    counters["solver_not_truthful_discrepancy_dismissed"] = 1
    if not args.get("additional_starts") and not args.get("additional_ends") and cname in (
            "kMinPathError", "kLeastAbsErrors", "kPathCover", "kMinPathErrorCycles", "kLeastAbsErrorsCycles", "kPathCoverCycles") and len(g["nodes"]) >= 3:
        w2 = copy.deepcopy(world)
        w2["args"]["additional_starts"] = [g["nodes"][len(g["nodes"]) // 2]]
        w2["args"]["additional_ends"] = [g["nodes"][len(g["nodes"]) // 3]]
        out2, _, _ = mr.run(w2, spec["sim"], seed=1)
        counters["monitor:extra_start_end"] = 1
        if not out2.get("construct_exc") and not out2.get("solve_exc"):
            if out0["solved"] and not out2["solved"]:
                bad, best = _confirmed(world, w2, lambda sa, ba, sb, bb: sa and not sb)
                if bad:
                    vs.append(Violation(ID, "C10.extra_start_end_lost_solution", cname, {"base_objective": out0.get("objective"), "cross_check": best}))
            elif out0["solved"] and out2["solved"] and cname not in models.COVER_CLASSES:
                try:
                    if float(out2["objective"]) > float(out0["objective"]) + 1e-6 * max(1.0, abs(float(out0["objective"]))):
                        bad, best = _confirmed(world, w2, lambda sa, ba, sb, bb: sa and sb and bb > ba + 1e-6 * max(1.0, abs(ba)))
                        if bad:
                            vs.append(Violation(ID, "C10.extra_start_end_worse_objective", cname,
                                                {"base": out0.get("objective"), "with_extra": out2.get("objective"), "cross_check": best}))
                except Exception:
                    pass
    if cname in ("kMinPathError", "kLeastAbsErrors", "kMinPathErrorCycles", "kLeastAbsErrorsCycles"):
        # "giving an element error scale 0" and "ignoring it" are the same request: same solvability, same optimum
        node_mode = mr._node_mode(world)
        if node_mode:
            elems = [x for x, f in g.get("node_weights", []) if f is not None]
        else:
            elems = [[u, v] for u, v, f in g["edges"] if f is not None]
        already = [e for e in (args.get("elements_to_ignore") or [])]
        elems = [e for e in elems if e not in already]
        if len(elems) >= 2:
            e = elems[H(spec["sim"].get("reply_seed", 0), "scale0") % len(elems)]
            wa, wb = copy.deepcopy(world), copy.deepcopy(world)
            wa["args"]["elements_to_ignore"] = already + [e]
            wa["args"]["error_scaling"] = [p_ for p_ in (args.get("error_scaling") or []) if p_[0] != e]
            wb["args"]["error_scaling"] = [p_ for p_ in (args.get("error_scaling") or []) if p_[0] != e] + [[e, 0]]
            if not wa["args"]["error_scaling"]:
                wa["args"].pop("error_scaling")
            if H(spec["sim"].get("reply_seed", 0), "scale0-safety") % 2 == 0:
                # both requests also under the options that turn safety information (computed from the trusted, i.e. the
                # non-ignored, elements) into constraints of the model
                for w_ in (wa, wb):
                    if w_["args"].get("k") and H(spec["sim"].get("reply_seed", 0), "scale0-tight-k") % 2 == 0:
                        w_["args"]["k"] = max(1, w_["args"]["k"] - 1)       # tight: nothing is covered "for free" by a spare route
                    oo_ = w_["args"].setdefault("optimization_options", {})
                    if cname in models.DAG_CLASSES:
                        oo_["optimize_with_safety_as_subpath_constraints"] = True
                    else:
                        oo_.pop("optimize_with_safety_as_subset_constraints", None)
                        oo_.pop("optimize_with_max_safe_antichain_as_subset_constraints", None)
                        oo_[["optimize_with_safety_as_subset_constraints", "optimize_with_max_safe_antichain_as_subset_constraints"][
                            H(spec["sim"].get("reply_seed", 0), "scale0-safety-which") % 2]] = True
            oa, _, _ = mr.run(wa, spec["sim"], seed=1)
            ob, _, _ = mr.run(wb, spec["sim"], seed=1)
            counters["monitor:scale0_vs_ignored"] = 1
            if not any(o.get("construct_exc") or o.get("solve_exc") for o in (oa, ob)):
                if oa["solved"] != ob["solved"] or (oa["solved"] and not _close(oa.get("objective"), ob.get("objective"))):
                    bad, best = _confirmed(wa, wb, lambda sa, ba, sb, bb: sa != sb or (sa and not _close(ba, bb)))
                    if bad:
                        vs.append(Violation(ID, "C10.scale0_differs_from_ignored", cname + ("/node" if node_mode else ""),
                                            {"element": e, "ignored": [oa["solved"], oa.get("objective")], "scale0": [ob["solved"], ob.get("objective")], "cross_check": best}))
                    else:
                        counters["solver_not_truthful_discrepancy_dismissed"] = 1
            elif bool(oa.get("construct_exc") or oa.get("solve_exc")) != bool(ob.get("construct_exc") or ob.get("solve_exc")):
                vs.append(Violation(ID, "C10.scale0_differs_from_ignored", cname + ("/node" if node_mode else ""),
                                    {"element": e, "ignored_exc": oa.get("construct_exc") or oa.get("solve_exc"), "scale0_exc": ob.get("construct_exc") or ob.get("solve_exc")}))
    cons_key = "subpath_constraints" if cname in models.DAG_CLASSES else "subset_constraints"
    if args.get(cons_key):
        # constraints only restrict: whatever is solved with them is solved without them, and a
        # minimised objective cannot be better with them than without
        w2 = copy.deepcopy(world)
        for k_ in (cons_key, cons_key + "_coverage", "subpath_constraints_coverage_length"):
            w2["args"].pop(k_, None)
        out2, _, _ = mr.run(w2, spec["sim"], seed=1)
        counters["monitor:without_constraints"] = 1
        if not out2.get("construct_exc") and not out2.get("solve_exc"):
            if out0["solved"] and not out2["solved"]:
                bad, best = _confirmed(world, w2, lambda sa, ba, sb, bb: sa and not sb)
                if bad:
                    vs.append(Violation(ID, "C10.solved_only_with_constraints", cname, {"objective_with": out0.get("objective"), "cross_check": best}))
            elif out0["solved"] and out2["solved"]:
                try:
                    if float(out0["objective"]) < float(out2["objective"]) - 1e-6 * max(1.0, abs(float(out2["objective"]))):
                        bad, best = _confirmed(world, w2, lambda sa, ba, sb, bb: sa and sb and ba < bb - 1e-6 * max(1.0, abs(bb)))
                        if bad:
                            vs.append(Violation(ID, "C10.better_objective_with_constraints", cname,
                                                {"with": out0.get("objective"), "without": out2.get("objective"), "cross_check": best}))
                except Exception:
                    pass
        # the optimum is over exactly the solutions satisfying the constraints: the optional safety
        # optimisations (which treat constraint edges as trusted) must not change it
        if not args.get("additional_starts") and not args.get("additional_ends") and not args.get("solution_weights_superset"):
            from props import c05
            w3 = copy.deepcopy(world)
            w3["args"]["optimization_options"] = c05.off_flags(cname)
            out3, _, _ = mr.run(w3, spec["sim"], seed=1)
            counters["monitor:safety_off"] = 1
            if not out3.get("construct_exc") and not out3.get("solve_exc"):
                if out3["solved"] != out0["solved"] or (out0["solved"] and not _close(out3.get("objective"), out0.get("objective"))):
                    bad, best = _confirmed(world, w3, lambda sa, ba, sb, bb: sa != sb or (sa and not _close(ba, bb)))
                    if bad:
                        vs.append(Violation(ID, "C10.optimum_differs_from_unoptimised_model", cname,
                                            {"with_options": [out0["solved"], out0.get("objective")], "all_optimisations_off": [out3["solved"], out3.get("objective")],
                                             "options": args.get("optimization_options"), "cross_check": best}))
                    else:
                        counters["solver_not_truthful_discrepancy_dismissed"] = 1
    return vs, counters


def _close(a, b):
    try:
        return abs(float(a) - float(b)) <= 1e-6 * max(1.0, abs(float(a)), abs(float(b)))
    except Exception:
        return a == b


def oracle_base_requirement(world, out, pid=ID):
    """With constraints, a cover model still has to return a cover: the constraints select among
    the solutions of the problem, they do not change the problem."""
    from sim import ref
    vs = []
    if not out["solved"] or world["class"] not in models.COVER_CLASSES or mr._node_mode(world):
        return vs
    args = world["args"]
    oo_ = args.get("optimization_options") or {}
    if not (args.get("subpath_constraints") or args.get("subset_constraints") or any(
            oo_.get(o_) for o_ in ("optimize_with_safety_as_subpath_constraints", "optimize_with_safety_as_subset_constraints",
                                   "optimize_with_max_safe_antichain_as_subset_constraints"))):
        return vs
    key, routes = mr.routes_of(world, out["raw_solution"])
    covered = set()
    for r in routes or []:
        covered.update(zip(r[:-1], r[1:]))
    ign = {tuple(e) for e in (args.get("elements_to_ignore") or [])}
    for u, v, _ in world["graph"]["edges"]:
        if (u, v) not in ign and (u, v) not in covered:
            vs.append(Violation(pid, pid + ".constrained_cover_misses_edge", world["class"], {"edge": [u, v], "routes": routes}))
            break
    return vs


def oracle_constructed_feasible(world, out, pid=ID):
    """The generating routes satisfy every constraint to the requested fraction, so a model whose k admits them
    cannot be infeasible: constraints (and the machinery acting on them) remove nothing but violating solutions."""
    vs = []
    if out.get("construct_exc") or out.get("solve_exc") or out.get("system_exit") or out["solved"]:
        return vs
    if not mr.witness_feasible(world):
        return vs
    if sum(out.get("fired", {}).values()) > 0:
        return vs
    args = world["args"]
    if not (args.get("subpath_constraints") or args.get("subset_constraints")):
        return vs
    cname = world["class"]
    if cname in ("kFlowDecomp", "MinFlowDecomp", "kFlowDecompCycles", "MinFlowDecompCycles") and args.get("solution_weights_superset") is None and args.get("elements_to_ignore"):
        return vs
    if not out["solved"]:
        # the constraints are to blame only if the same world without them is solved (MinFlowDecomp, for one, gives up on
        # a graph whose zero-flow edges push its width bound to the number of edges - with or without constraints; that is
        # C03's matter, not this property's)
        w0 = copy.deepcopy(world)
        for k_ in ("subpath_constraints", "subset_constraints", "subpath_constraints_coverage", "subset_constraints_coverage",
                   "subpath_constraints_coverage_length"):
            w0["args"].pop(k_, None)
        try:
            out0, _, _ = mr.run(w0, {"latency": "instant", "reply": "canonical", "faults": []}, seed=1)
        except W.Discard:
            return vs
        if not out0.get("solved"):
            return vs
        vs.append(Violation(pid, pid + ".satisfiable_constraints_made_infeasible", cname + ("/node" if mr._node_mode(world) else ""),
                            {"generating_routes": world["graph"].get("routes"), "weights": world["graph"].get("weights"), "k": args.get("k")}))
    return vs


def execute(spec):
    res = base.execute(spec, oracles=[mr.oracle_c10, oracle_base_requirement, oracle_constructed_feasible], pid=ID)
    if spec.get("monitor") and "violations" in res:
        try:
            out0, _, _ = mr.run(spec["world"], spec["sim"], seed=1)
            vs, counters = _monitor(spec, out0)
            res["violations"] += [dict(v) for v in vs]
            res["counters"].update(counters)
        except W.Discard:
            pass
    if "summary" in res:
        ncons = len(spec["world"]["args"].get("subpath_constraints") or spec["world"]["args"].get("subset_constraints") or [])
        res["counters"]["with_constraints" if ncons else "without_constraints"] = 1
        res["nontrivial"] = bool(res["nontrivial"] and ncons)
    return res


sample_view = base.sample_view
shrink = mr.shrink
