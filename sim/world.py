"""SimWorld: the single place that owns every source of nondeterminism of a run.

Seams (all installed from outside, no source hook in /repo):
  * ``id``      -> per-run counter (10**12 + n), in every flowpaths module
  * ``time``    -> virtual clock, in every flowpaths module that imports time
  * ``signal``  -> virtual SIGALRM, in flowpaths.utils.solverwrapper
  * ``HighsCustom`` -> SimHighs: real HiGHS solve, simulated delivery (status, duration,
    which optimum, float noise, exception)
  * ``concurrent.futures.ThreadPoolExecutor`` / ``threading.Lock`` -> inline executor by
    default; the baton-passing scheduler of sim/sched.py when a check asks for it.
"""
import math
import sys
import collections

import numpy as np
import highspy

from .core import History, Streams, H

REAL_CAP_S = 30.0  # real-time safety cap per native solve; a capped run is discarded

_CURRENT = None


def current():
    if _CURRENT is None:
        raise RuntimeError("no SimWorld active")
    return _CURRENT


class Discard(BaseException):
    """The run cannot be used as a verdict (e.g. native solver hit the real-time cap).
    BaseException: the library swallows ``Exception`` around the solve in one place."""


class StepCap(BaseException):
    """More solver invocations than the step cap allows: reported as a hang."""


LATENCY = {
    # (lo, hi) of a log-uniform distribution, seconds of *virtual* time per invocation
    "instant": (1e-6, 1e-4),
    "realistic": (1e-3, 10.0),
    "slow": (1.0, 1e4),
}

STATUS_FAULTS = {
    "interrupt": "kInterrupt",
    "unknown": "kUnknown",
    "iteration_limit": "kIterationLimit",
    "memory_limit": "kMemoryLimit",
    "solve_error": "kSolveError",
    "notset": "kNotset",
    "unbounded_or_infeasible": "kUnboundedOrInfeasible",
    "objective_bound": "kObjectiveBound",
    # the remaining members of HighsModelStatus: every one of them is "not optimal, not proven infeasible"
    "model_error": "kModelError",
    "load_error": "kLoadError",
    "presolve_error": "kPresolveError",
    "postsolve_error": "kPostsolveError",
    "model_empty": "kModelEmpty",
    "unbounded": "kUnbounded",
    "objective_target": "kObjectiveTarget",
    "highs_interrupt": "kHighsInterrupt",
}
REAL_FAULTS = ("time_limit_no_incumbent", "solution_limit")
OTHER_FAULTS = ("time_limit_with_incumbent", "exception", "overshoot")
CLOCK_FAULTS = ("clock_jump_before", "clock_jump_after")
ALL_FAULT_KINDS = REAL_FAULTS + OTHER_FAULTS + tuple(STATUS_FAULTS) + CLOCK_FAULTS

CONCLUSIVE = ("kOptimal", "kInfeasible")


class SimWorld:
    """State of one simulated execution."""

    def __init__(self, seed, cfg=None, id_offset=0):
        cfg = dict(cfg or {})
        self.seed = seed
        self.cfg = cfg
        self.streams = Streams(seed)
        self.history = History()
        self.now = 0.0
        self.tick = float(cfg.get("tick", 1e-6))
        self.latency = cfg.get("latency", "instant")
        self.reply = cfg.get("reply", "canonical")      # canonical | alt | alt+noise | noise
        self.reply_seed = cfg.get("reply_seed", 0)
        # fault plan: list of {"at": j, "kind": str, ...}; at most one per invocation index
        self.faults = {int(f["at"]): f for f in cfg.get("faults", [])}
        self.only_aux_faults = cfg.get("only_aux_faults", False)
        self.inv = 0
        self.fired = collections.Counter()
        self.probes = collections.Counter()
        self.invocations = []          # dicts, one per optimize() call
        self.alarm_deadline = None
        self.alarm_handler = None
        # HiGHS keeps one task scheduler per process, started with the thread count of the first solve; a later solve that
        # asks for another count is refused (run() returns an error, the model status stays kNotset) until
        # Highs.resetGlobalScheduler() is called.  The native solves here always use one thread; this models the real thing.
        self.sched_threads = None
        self.alarms_fired = 0
        self._id_map = {}
        self._id_keep = []
        self._id_next = 10 ** 12 + id_offset
        self.discard_reason = None
        self.stub = cfg.get("stub_solver")  # callable(SimHighs) -> values, for C14
        self.sim_seconds = 0.0
        self.step_cap = cfg.get("step_cap")

    # ---- id seam -------------------------------------------------------
    def sim_id(self, obj):
        rid = id(obj)
        v = self._id_map.get(rid)
        if v is None:
            self._id_next += 1
            v = self._id_next
            self._id_map[rid] = v
            self._id_keep.append(obj)   # keep alive so that real ids are not reused
        return v

    # ---- clock ---------------------------------------------------------
    def advance(self, d):
        if d > 0:
            self.now += d
            self.sim_seconds += d

    def perf_counter(self):
        self.advance(self.tick)
        return self.now

    # ---- faults --------------------------------------------------------
    def fault_at(self, j, is_aux):
        f = self.faults.get(j)
        if f is None:
            return None
        if self.only_aux_faults and not is_aux:
            return None
        return f

    def draw_latency(self, j):
        lo, hi = LATENCY[self.latency]
        r = self.streams("latency%d" % j)
        return math.exp(r.uniform(math.log(lo), math.log(hi)))

    # ---- alarm ---------------------------------------------------------
    def alarm(self, n):
        n = int(n)
        if n < 0:
            n = n % (1 << 32)       # unsigned wrap-around, as alarm(2) does
        remaining = 0
        if self.alarm_deadline is not None:
            remaining = max(0, int(math.ceil(self.alarm_deadline - self.now)))
        if n == 0:
            self.alarm_deadline = None
        else:
            self.alarm_deadline = self.now + n
        self.history.add("alarm", n=n, now=self.now)
        return remaining

    def itimer(self, seconds):
        remaining = 0.0
        if self.alarm_deadline is not None:
            remaining = max(0.0, self.alarm_deadline - self.now)
        self.alarm_deadline = None if seconds <= 0 else self.now + float(seconds)
        self.history.add("alarm", n=float(seconds), now=self.now)
        return (remaining, 0.0)

    def deliver_alarm_if_due(self):
        if self.alarm_deadline is not None and self.now >= self.alarm_deadline:
            self.alarm_deadline = None
            self.alarms_fired += 1
            self.fired["alarm_fired"] += 1
            self.history.add("alarm_fired", now=self.now)
            if self.invocations:
                self.invocations[-1]["alarm"] = True
            h = self.alarm_handler
            if callable(h):
                h(14, None)


class _ModuleFallback(type):
    """A seam offers the whole interface of the module it replaces: what the simulator does not own is the real thing."""

    def __getattr__(cls, name):
        return getattr(cls._real, name)


import signal as _real_signal
import time as _real_time


class SimTime(metaclass=_ModuleFallback):
    """Replacement for the ``time`` module inside flowpaths modules: every clock reads the virtual clock."""
    _real = _real_time

    @staticmethod
    def perf_counter_ns():
        return int(current().perf_counter() * 1e9)

    @staticmethod
    def monotonic_ns():
        return int(current().perf_counter() * 1e9)

    @staticmethod
    def time_ns():
        return int((1.7e9 + current().perf_counter()) * 1e9)

    @staticmethod
    def process_time():
        return current().perf_counter()

    @staticmethod
    def thread_time():
        return current().perf_counter()

    @staticmethod
    def perf_counter():
        return current().perf_counter()

    @staticmethod
    def time():
        return 1.7e9 + current().perf_counter()

    @staticmethod
    def monotonic():
        return current().perf_counter()

    @staticmethod
    def sleep(d):
        current().advance(float(d))


class SimSignal(metaclass=_ModuleFallback):
    _real = _real_signal
    SIGALRM = 14
    SIG_DFL = 0
    SIG_IGN = 1

    @staticmethod
    def signal(signum, handler):
        if signum != SimSignal.SIGALRM:
            return _real_signal.signal(signum, handler)
        w = current()
        old = w.alarm_handler
        w.alarm_handler = handler
        w.history.add("signal_handler_set")
        return old if old is not None else SimSignal.SIG_DFL

    @staticmethod
    def alarm(n):
        return current().alarm(n)

    @staticmethod
    def setitimer(which, seconds, interval=0.0):
        # ITIMER_REAL delivers SIGALRM: the same virtual alarm, with sub-second resolution
        return current().itimer(seconds)

    @staticmethod
    def getsignal(signum):
        if signum != SimSignal.SIGALRM:
            return _real_signal.getsignal(signum)
        h = current().alarm_handler
        return h if h is not None else SimSignal.SIG_DFL


def _sim_id(obj):
    return current().sim_id(obj)


# --------------------------------------------------------------------------
# Solver channel
# --------------------------------------------------------------------------

_MODEL_BASES = None


def _owner_chain():
    """Walk up the stack: chain of 'Class.func' for frames in flowpaths modules whose
    ``self`` is a model (not the wrapper), outermost first; plus owner class and k."""
    f = sys._getframe(2)
    chain = []
    owner = None
    owner_k = None
    while f is not None:
        mod = f.f_globals.get("__name__", "")
        if mod.startswith("flowpaths") and not mod.endswith("solverwrapper"):
            slf = f.f_locals.get("self")
            if slf is not None:
                cname = type(slf).__name__
                chain.append(cname + "." + f.f_code.co_name)
                if owner is None:
                    owner = cname
                    k = f.f_locals.get("k", None)
                    if k is None:
                        k = getattr(slf, "k", None)
                    owner_k = k if isinstance(k, int) else None
        f = f.f_back
    chain.reverse()
    return owner, owner_k, chain


AUX_FUNCS = ("_solve_with_given_weights", "_get_lowerbound_with_min_gen_set",
             "_get_lowerbound_with_subgraph_scanning", "get_lowerbound_k")


def _is_aux(chain):
    return any(c.split(".", 1)[1] in AUX_FUNCS for c in chain)


def make_simhighs(base):
    """Build the SimHighs class on top of the repository's HighsCustom."""

    class SimHighs(base):
        def __init__(self):
            super().__init__()
            self._sim_time_limit = float("inf")
            self._sim_threads = None
            self._d = None     # delivered reply: dict(status=name, obj=float, values=list)
            base.setOptionValue(self, "threads", 1)
            # native_seed / native_presolve: used only by the solver-truthfulness cross-check
            # (sim/crosscheck.py): the same model solved under other HiGHS seeds / without presolve
            base.setOptionValue(self, "random_seed", int(current().cfg.get("native_seed", 0)))
            base.setOptionValue(self, "time_limit", REAL_CAP_S)
            base.setOptionValue(self, "output_flag", False)

        # -- options: record what the library asked for, keep native deterministic
        def setOptionValue(self, name, value):
            if name == "time_limit":
                try:
                    v = float(value)
                except Exception:
                    return highspy.HighsStatus.kError
                if v < 0 or v != v:
                    # HiGHS rejects out-of-range values and keeps the old one
                    current().probes["negative_time_limit_rejected"] += 1
                    return highspy.HighsStatus.kError
                self._sim_time_limit = v
                current().history.add("set_time_limit", v=v)
                return highspy.HighsStatus.kOk
            if name == "threads":
                try:
                    self._sim_threads = int(value)
                except Exception:
                    return highspy.HighsStatus.kError
                return highspy.HighsStatus.kOk
            if name == "presolve" and current().cfg.get("native_presolve"):
                return base.setOptionValue(self, name, current().cfg["native_presolve"])
            if name == "log_to_console":
                return base.setOptionValue(self, name, value)
            return base.setOptionValue(self, name, value)

        # -- the invocation event
        def optimize(self):
            return self._sim_invoke()

        def solve(self):
            return self._sim_invoke()

        def run(self):
            return self._sim_invoke()

        def _native(self):
            return highspy._core._Highs.run(self)

        def _native_status(self):
            return base.getModelStatus(self).name

        def _native_values(self):
            return list(highspy._core._Highs.getSolution(self).col_value)

        def _sim_invoke(self):
            w = current()
            j = w.inv
            if w.step_cap is not None and j >= w.step_cap:
                raise StepCap("more than %d solver invocations" % w.step_cap)
            w.inv += 1
            owner, owner_k, chain = _owner_chain()
            aux = _is_aux(chain)
            fault = w.fault_at(j, aux)
            kind = fault["kind"] if fault else None
            B = self._sim_time_limit
            rec = {"j": j, "owner": owner, "k": owner_k, "chain": chain, "aux": aux,
                   "budget": B, "planned": kind, "fired": None}
            w.invocations.append(rec)

            if kind == "clock_jump_before":
                w.advance(float(fault.get("jump", 1e6)))
                w.fired[kind] += 1
                rec["fired"] = kind
                w.deliver_alarm_if_due()

            if kind == "exception":
                w.fired[kind] += 1
                rec["fired"] = kind
                rec["delivered"] = "exception"
                w.advance(w.draw_latency(j))
                w.history.add("invoke", **{k: rec[k] for k in ("j", "owner", "k", "aux", "fired")},
                              delivered="exception")
                self._d = {"status": "kNotset", "obj": 0.0, "values": []}
                w.deliver_alarm_if_due()
                raise RuntimeError("simulated solver crash (fault injection)")

            if w.stub is not None:
                # C14: the solver is not run at all; the stub fabricates the reply
                values = w.stub(self, j)
                self._d = {"status": "kOptimal", "obj": 0.0, "values": values}
                rec["real"] = "stub"
                rec["delivered"] = "kOptimal"
                w.history.add("invoke", j=j, owner=owner, k=owner_k, delivered="kOptimal", stub=True)
                return highspy.HighsStatus.kOk

            # ---- the process-wide scheduler (see SimWorld.sched_threads) -----------
            if self._sim_threads:
                if w.sched_threads is None:
                    w.sched_threads = self._sim_threads
                elif w.sched_threads != self._sim_threads:
                    w.probes["scheduler_thread_count_refused"] += 1
                    rec["delivered"] = "kNotset"
                    rec["refused"] = "threads=%d, scheduler runs with %d" % (self._sim_threads, w.sched_threads)
                    self._d = {"status": "kNotset", "obj": 0.0, "values": []}
                    w.history.add("invoke", j=j, owner=owner, k=owner_k, aux=aux, delivered="kNotset", refused=rec["refused"])
                    return highspy.HighsStatus.kError

            # ---- native solve (real HiGHS) --------------------------------
            restore = None
            if kind == "time_limit_no_incumbent":
                base.setOptionValue(self, "time_limit", 0.0)
                restore = ("time_limit", REAL_CAP_S)
            elif kind == "solution_limit":
                base.setOptionValue(self, "mip_max_nodes", 0)
                restore = ("mip_max_nodes", 2147483647)
            try:
                self._native()
            finally:
                if restore:
                    base.setOptionValue(self, *restore)
            real = self._native_status()
            rec["real"] = real
            if real == "kTimeLimit" and kind != "time_limit_no_incumbent":
                w.discard_reason = "native solve hit the real-time cap"
                raise Discard(w.discard_reason)
            obj = float(base.getObjectiveValue(self))
            values = self._native_values()
            delivered = real

            if kind in REAL_FAULTS:
                if real not in CONCLUSIVE:
                    w.fired[kind] += 1
                    rec["fired"] = kind
                # else: presolve decided the model before the limit could bite; genuine reply
                D = min(w.draw_latency(j), B if B != float("inf") else float("inf"))
                w.advance(D if D != float("inf") else w.draw_latency(j))
            else:
                D = w.draw_latency(j)
                if kind == "overshoot" and B != float("inf"):
                    D = max(D, B * (1.5 + w.streams("overshoot%d" % j).random() * 10) + 1.0)
                    w.fired[kind] += 1
                    rec["fired"] = kind
                    w.advance(D)
                elif D > B:
                    # the solver needed longer than it was given: genuine-looking time limit
                    w.fired["budget_exhausted"] += 1
                    rec["fired"] = "budget_exhausted"
                    delivered = "kTimeLimit"
                    w.advance(B)
                else:
                    w.advance(D)

                if kind == "time_limit_with_incumbent":
                    if real == "kOptimal":
                        delivered = "kTimeLimit"
                        if fault.get("incumbent", "optimal") == "feasible":
                            alt = self._alt_vertex(H(w.reply_seed, j, "feas"), keep_objective=False)
                            if alt is not None:
                                values = alt[1]
                                obj = alt[0]
                        w.fired[kind] += 1
                        rec["fired"] = kind
                elif kind in STATUS_FAULTS:
                    delivered = STATUS_FAULTS[kind]
                    w.fired[kind] += 1
                    rec["fired"] = kind

            # ---- contract-admissible variation of an optimal reply ---------
            if delivered == "kOptimal":
                if w.reply in ("alt", "alt+noise"):
                    alt = self._alt_vertex(H(w.reply_seed, j, "alt"), keep_objective=True)
                    if alt is not None:
                        if any(abs(a - b) > 1e-6 for a, b in zip(alt[1], values)):
                            w.probes["alt_optimum_differs"] += 1
                        values = alt[1]
                if w.reply in ("noise", "alt+noise"):
                    values = self._noise(values, H(w.reply_seed, j, "noise"))
                    w.probes["noise_applied"] += 1

            self._d = {"status": delivered, "obj": obj, "values": values}
            rec["delivered"] = delivered
            rec["obj"] = obj
            w.history.add("invoke", j=j, owner=owner, k=owner_k, aux=aux, real=real,
                          delivered=delivered, obj=obj, fired=rec["fired"], budget=B,
                          nvals=len(values), vsum=float(sum(values)) if values else 0.0)

            if kind == "clock_jump_after":
                w.advance(float(fault.get("jump", 1e6)))
                w.fired[kind] += 1
                rec["fired"] = kind
            w.deliver_alarm_if_due()
            return highspy.HighsStatus.kOk

        # -- alternative vertices -----------------------------------------
        def _alt_vertex(self, seed, keep_objective=True):
            """Another optimal (or merely feasible) integer-feasible vertex of the current
            model: fix the objective at z* by a row, optimise a seeded random secondary
            objective, read the vertex, restore the model."""
            core = highspy._core._Highs
            try:
                lp = core.getLp(self)
                n = lp.num_col_
                if n == 0:
                    return None
                cost = np.array(lp.col_cost_, dtype=np.float64)
                sense = lp.sense_
                offset = lp.offset_
                zstar = float(base.getObjectiveValue(self))
                integrality = list(lp.integrality_) if len(lp.integrality_) == n else [highspy.HighsVarType.kContinuous] * n
                rng = np.random.RandomState(seed % (2 ** 32))
                sec = np.zeros(n, dtype=np.float64)
                for i in range(n):
                    if integrality[i] != highspy.HighsVarType.kContinuous:
                        sec[i] = float(rng.randint(-3, 4))
                    else:
                        sec[i] = float(rng.randint(-1, 2)) * 0.25
                added = False
                nz = np.nonzero(cost)[0].astype(np.int32)
                if keep_objective and len(nz) > 0:
                    rhs = zstar - offset
                    core.addRow(self, rhs, rhs, len(nz), nz, cost[nz])
                    added = True
                idx = np.arange(n, dtype=np.int32)
                core.changeColsCost(self, n, idx, sec)
                core.changeObjectiveSense(self, highspy.ObjSense.kMinimize)
                core.run(self)
                st = base.getModelStatus(self).name
                vals = list(core.getSolution(self).col_value) if st == "kOptimal" else None
                # restore
                if added:
                    core.deleteRows(self, 1, np.array([core.getNumRow(self) - 1], dtype=np.int32))
                core.changeColsCost(self, n, idx, cost)
                core.changeObjectiveSense(self, sense)
                core.changeObjectiveOffset(self, offset)
                if vals is None:
                    current().probes["alt_failed_" + st] += 1
                    return None
                z = float(np.dot(cost, np.array(vals)) + offset)
                return (z if not keep_objective else zstar, vals)
            except Discard:
                raise
            except Exception as e:  # harness trouble: fall back to the canonical reply
                current().probes["alt_error_" + type(e).__name__] += 1
                return None

        def _noise(self, values, seed):
            core = highspy._core._Highs
            lp = core.getLp(self)
            n = lp.num_col_
            integrality = list(lp.integrality_) if len(lp.integrality_) == n else [highspy.HighsVarType.kContinuous] * n
            lo = list(lp.col_lower_)
            hi = list(lp.col_upper_)
            rng = np.random.RandomState(seed % (2 ** 32))
            tol = 1e-9
            out = []
            for i, v in enumerate(values):
                if i < n and integrality[i] != highspy.HighsVarType.kContinuous:
                    r = rng.random_sample()
                    if r < 0.5:
                        d = (rng.random_sample() * 2 - 1) * 0.4 * tol
                        nv = v + d
                    elif r < 0.6 and v == 0:
                        nv = -0.0
                    else:
                        nv = v
                else:
                    r = rng.random_sample()
                    if r < 0.5:
                        nv = v * (1 + (rng.random_sample() * 2 - 1) * 1e-10)
                        if v == 0:
                            nv = 1e-12 if rng.random_sample() < 0.5 else 0.0
                    else:
                        nv = v
                    if i < n:
                        nv = min(max(nv, lo[i] - 0.4 * tol), hi[i] + 0.4 * tol)
                out.append(float(nv))
            return out

        # -- reads ----------------------------------------------------------
        def getModelStatus(self):
            if self._d is None:
                return base.getModelStatus(self)
            return getattr(highspy.HighsModelStatus, self._d["status"])

        def getObjectiveValue(self):
            if self._d is None:
                return base.getObjectiveValue(self)
            return self._d["obj"]

        def allVariableValues(self):
            if self._d is None:
                return base.allVariableValues(self)
            return list(self._d["values"])

    return SimHighs


# --------------------------------------------------------------------------
# Inline executor / lock (default: no run depends on the OS scheduler)
# --------------------------------------------------------------------------

class InlineExecutor:
    def __init__(self, max_workers=None, **kw):
        self.max_workers = max_workers

    def __enter__(self):
        return self

    def __exit__(self, *a):
        return False

    def map(self, fn, *iterables):
        return [fn(*args) for args in zip(*iterables)]

    def submit(self, fn, *a, **kw):
        import concurrent.futures as cf
        fut = cf.Future()
        try:
            fut.set_result(fn(*a, **kw))
        except BaseException as e:
            fut.set_exception(e)
        return fut

    def shutdown(self, wait=True, **kw):
        pass


_INSTALLED = False
_REAL = {}


def install():
    """Install all seams (idempotent). Must be called before any model is built."""
    global _INSTALLED
    if _INSTALLED:
        return
    import importlib, pkgutil, time as _time, signal as _signal
    import flowpaths
    for m in pkgutil.walk_packages(flowpaths.__path__, "flowpaths."):
        if m.name.endswith("__main__"):
            continue
        importlib.import_module(m.name)
    for name, mod in list(sys.modules.items()):
        if mod is None or not (name == "flowpaths" or name.startswith("flowpaths.")):
            continue
        mod.id = _sim_id
        if getattr(mod, "time", None) is _time:
            mod.time = SimTime
    import flowpaths.utils.solverwrapper as sw
    _REAL["HighsCustom"] = sw.HighsCustom
    sw.signal = SimSignal
    sw.HighsCustom = make_simhighs(sw.HighsCustom)
    _real_reset = highspy.Highs.resetGlobalScheduler

    def _sim_reset_scheduler(blocking=True):
        w = _CURRENT
        if w is not None:
            w.sched_threads = None
            w.history.add("reset_global_scheduler")
        return _real_reset(blocking)
    highspy.Highs.resetGlobalScheduler = staticmethod(_sim_reset_scheduler)
    import concurrent.futures as cf
    import threading
    _REAL["ThreadPoolExecutor"] = cf.ThreadPoolExecutor
    _REAL["Lock"] = threading.Lock
    cf.ThreadPoolExecutor = InlineExecutor
    _INSTALLED = True


def repo_path():
    import flowpaths
    return flowpaths.__file__


class active:
    """Context manager: make a SimWorld the current one."""

    def __init__(self, world):
        self.world = world

    def __enter__(self):
        global _CURRENT
        self.prev = _CURRENT
        _CURRENT = self.world
        return self.world

    def __exit__(self, *a):
        global _CURRENT
        _CURRENT = self.prev
        return False
