"""Determinism self-test (DESIGN.md 2.13): every run of a property's quick workload is executed
several times - different ambient PYTHONHASHSEED, different worker counts, different processes -
and the per-run history digests must be identical."""
import json, os, subprocess, sys, tempfile

V = os.path.dirname(os.path.dirname(os.path.abspath(__file__)))
props = sys.argv[1].split(",") if len(sys.argv) > 1 else "C13 C01 C02 C05 C06 C10 C12 C14 C15 C17 C18 C20".split()
worlds = int(sys.argv[2]) if len(sys.argv) > 2 else 48
configs = [("0", "16"), ("12345", "16"), ("777", "3"), ("0", "1")]
bad = 0
for p in props:
    res = []
    for hs, wk in configs:
        f = tempfile.mktemp(suffix=".json", dir="/tmp")
        env = dict(os.environ, PYTHONHASHSEED=hs)
        w = worlds if wk != "1" else max(6, worlds // 6)
        subprocess.run([os.path.join(V, "check"), p, "--tier", "quick", "--worlds", str(w), "--workers", wk, "--digests", f],
                       env=env, stdout=subprocess.DEVNULL, cwd=V, timeout=3000)
        res.append(json.load(open(f)))
        os.remove(f)
    base = res[0]
    diffs = 0
    compared = 0
    for r in res[1:]:
        for k, d in r.items():
            if k in base:
                compared += 1
                if base[k] != d:
                    diffs += 1
                    if diffs <= 3:
                        print("  DIFF", p, k, base[k], d)
    print("%s runs=%d compared=%d digest_differences=%d" % (p, len(base), compared, diffs))
    bad += diffs
sys.exit(1 if bad else 0)
