"""C02 - flow decompositions explain every non-ignored edge's flow exactly."""
import random

from props import c01 as base
from props import modelruns as mr
from sim import models
from sim.core import H

ID = "C02"
LEVEL = "exploration"
BATCH = 6
QUICK_WORLDS = 480
THOROUGH_BUDGET_S = 900
RUN_TIMEOUT = 120
CLASSES = ["kFlowDecomp", "MinFlowDecomp", "kFlowDecompCycles", "MinFlowDecompCycles", "kFlowDecomp", "MinFlowDecomp"]
RULE = ("world = (flow-decomposition class, tiny conserving flow, swarm configuration: int/float, edge/node origin, ignored elements, "
        "constraints, greedy on/off, given weights, guessed weights, min-gen-set lower bound) from the seed; solved through the simulated "
        "channel under canonical / alt / alt+noise replies and, for the Min* searches, with a fault on an auxiliary or early invocation "
        "(e.g. the guessed-weights model timing out).  distinct = (class, mode, options, instance, reply, faults); non-trivial = solved after "
        ">= 1 invocation with a delivered reply that differed from the canonical one or with a fired fault.")
COMPONENTS = base.COMPONENTS
ASSUMPTIONS = base.ASSUMPTIONS + ["float tolerance 1e-6*max(1,flow) stands for 'within the solver tolerance'"]
TAG = "c02"


def gen_world(seed, tier):
    w = mr.gen_world(seed, CLASSES, want_constraints=0.25, node_p=0.3, tag=TAG)
    rng = random.Random(H(seed, "c02extra"))
    oo = w["args"].setdefault("optimization_options", {})
    if w["class"] in ("kFlowDecomp", "MinFlowDecomp") and "optimize_with_greedy" not in oo and rng.random() < 0.5:
        oo["optimize_with_greedy"] = rng.random() < 0.5
    return w


def plans(world, info, seed, tier):
    rng = random.Random(H(seed, TAG + "plans"))
    specs = []
    pols = ["canonical", "alt", "alt+noise"] if tier == "quick" else ["canonical", "alt", "alt", "alt+noise", "alt+noise", "noise"]
    for pol in pols:
        sim = {"latency": "instant", "reply": pol, "reply_seed": rng.randrange(1 << 30), "faults": []}
        if world["class"] in models.MIN_SEARCH_CLASSES and rng.random() < 0.4:
            sim["faults"] = [{"at": rng.randrange(0, 2), "kind": rng.choice(["interrupt", "time_limit_with_incumbent", "time_limit_no_incumbent"])}]
            sim["only_aux_faults"] = rng.random() < 0.7
        if pol != "canonical" and rng.random() < 0.3:
            sim["resolve"] = 1          # solve() a second time on the same object, then read the solution
        specs.append({"world": world, "sim": sim})
    if not mr._node_mode(world) and rng.random() < 0.35:
        # the same world after the caller used the same graph object with other flow values (x3, still conserving; or x0.5)
        specs.append({"world": world, "sim": {"latency": "instant", "reply": "canonical", "reply_seed": rng.randrange(1 << 30), "faults": [],
                                              "inplace_prelude": rng.choice([3, 3, 2, 0.5])}})
    w3 = mr.greedy_variant(world, rng)
    if w3 is not None:
        specs.append({"world": w3, "sim": {"latency": "instant", "reply": rng.choice(["canonical", "alt"]), "reply_seed": rng.randrange(1 << 30), "faults": []}})
    return specs


def execute(spec):
    return base.execute(spec, oracles=[mr.oracle_c02], pid=ID)


sample_view = base.sample_view
shrink = mr.shrink
