"""Re-express every seeded patch against /repo's current HEAD (they were written against an earlier commit):
apply at the recorded base commit, commit, cherry-pick onto HEAD, write the new diff and base."""
import json, os, subprocess, sys
V = os.path.dirname(os.path.dirname(os.path.abspath(__file__)))
head = subprocess.run(["git", "-C", "/repo", "rev-parse", "HEAD"], capture_output=True, text=True).stdout.strip()
for sid in sorted(os.listdir(os.path.join(V, "seeded"))):
    d = os.path.join(V, "seeded", sid)
    mp = os.path.join(d, "meta.json")
    meta = json.load(open(mp))
    if meta.get("base_commit") == head:
        continue
    # does it apply to HEAD as it is?
    chk = subprocess.run(["git", "-C", "/repo", "apply", "--check", os.path.join(d, "patch.diff")], capture_output=True)
    if chk.returncode == 0:
        meta["base_commit"] = head
        json.dump(meta, open(mp, "w"), indent=1)
        print(sid, "applies to HEAD unchanged")
        continue
    wt = "/tmp/wt/rebase_" + sid
    subprocess.run(["git", "-C", "/repo", "worktree", "remove", "--force", wt], capture_output=True)
    subprocess.run(["git", "-C", "/repo", "worktree", "add", "--detach", wt, meta["base_commit"]], capture_output=True, check=True)
    try:
        subprocess.run(["git", "-C", wt, "apply", os.path.join(d, "patch.diff")], check=True, capture_output=True)
        subprocess.run(["git", "-C", wt, "-c", "user.name=x", "-c", "user.email=x@x", "commit", "-qam", "seeded " + sid], check=True, capture_output=True)
        c = subprocess.run(["git", "-C", wt, "rev-parse", "HEAD"], capture_output=True, text=True).stdout.strip()
        subprocess.run(["git", "-C", wt, "checkout", "-q", "--detach", head], check=True, capture_output=True)
        cp = subprocess.run(["git", "-C", wt, "-c", "user.name=x", "-c", "user.email=x@x", "cherry-pick", c], capture_output=True, text=True)
        if cp.returncode != 0:
            print(sid, "CONFLICT - needs manual rebase:", cp.stderr[-200:].replace("\n", " "))
            continue
        diff = subprocess.run(["git", "-C", wt, "diff", head, "HEAD"], capture_output=True, text=True).stdout
        open(os.path.join(d, "patch.diff"), "w").write(diff)
        meta["base_commit"] = head
        json.dump(meta, open(mp, "w"), indent=1)
        print(sid, "rebased onto", head[:8])
    finally:
        subprocess.run(["git", "-C", "/repo", "worktree", "remove", "--force", wt], capture_output=True)
