"""Reference models: small, executable, independent of flowpaths (plain Python only).

Graphs are the JSON form of sim/gen.py: {"nodes": [...], "edges": [[u, v, w], ...]}.
"""
import itertools


def adj(g):
    succ = {x: [] for x in g["nodes"]}
    pred = {x: [] for x in g["nodes"]}
    for e in g["edges"]:
        u, v = e[0], e[1]
        succ.setdefault(u, []).append(v)
        pred.setdefault(v, []).append(u)
        succ.setdefault(v, [])
        pred.setdefault(u, [])
    return succ, pred


def edge_set(g):
    return {(e[0], e[1]) for e in g["edges"]}


# ---------------------------------------------------------------- C01
def check_routes(g, routes, dag, starts=(), ends=(), allow_empty=False):
    """Returns a list of (clause, detail) problems of the routes w.r.t. the caller's graph."""
    succ, pred = adj(g)
    E = edge_set(g)
    nodes = set(succ)
    starts = set(starts or ())
    ends = set(ends or ())
    bad = []
    for idx, r in enumerate(routes):
        if not isinstance(r, list):
            bad.append(("not_a_list", {"route": idx}))
            continue
        if len(r) == 0:
            if not allow_empty:
                bad.append(("empty_route", {"route": idx}))
            continue
        foreign = [x for x in r if x not in nodes]
        if foreign:
            bad.append(("synthetic_node", {"route": idx, "nodes": foreign[:4]}))
            continue
        for a, b in zip(r[:-1], r[1:]):
            if (a, b) not in E:
                bad.append(("not_an_edge", {"route": idx, "pair": [a, b]}))
                break
        else:
            if pred[r[0]] and r[0] not in starts:
                bad.append(("bad_start", {"route": idx, "node": r[0]}))
            if succ[r[-1]] and r[-1] not in ends:
                bad.append(("bad_end", {"route": idx, "node": r[-1]}))
            if dag and len(set(r)) != len(r):
                bad.append(("not_simple", {"route": idx}))
    return bad


# ---------------------------------------------------------------- C02
def edge_traversals(route):
    c = {}
    for a, b in zip(route[:-1], route[1:]):
        c[(a, b)] = c.get((a, b), 0) + 1
    return c


def explained_flow_edges(routes, weights):
    f = {}
    for r, w in zip(routes, weights):
        for e, m in edge_traversals(r).items():
            f[e] = f.get(e, 0) + w * m
    return f


def explained_flow_nodes(routes, weights):
    f = {}
    for r, w in zip(routes, weights):
        for x in r:
            f[x] = f.get(x, 0) + w
    return f


# ---------------------------------------------------------------- C10
def constraint_coverage_edges(constraint, route, lengths=None, as_set=False):
    """Amount of the constraint found in the route: number of its edges (or their total
    length) that the route traverses."""
    trav = edge_traversals(route)
    seen = set()
    tot = 0
    for e in constraint:
        e = tuple(e)
        if as_set and e in seen:
            continue
        seen.add(e)
        if e in trav:
            tot += (lengths or {}).get(e, 1)
    return tot


def constraint_length(constraint, lengths=None, as_set=False):
    es = [tuple(e) for e in constraint]
    if as_set:
        es = list(dict.fromkeys(es))
    return sum((lengths or {}).get(e, 1) for e in es)


# ---------------------------------------------------------------- reachability
def reachable(succ, x):
    seen = {x}
    st = [x]
    while st:
        y = st.pop()
        for z in succ.get(y, []):
            if z not in seen:
                seen.add(z)
                st.append(z)
    return seen


# ---------------------------------------------------------------- enumeration on tiny DAGs
def st_paths(g, limit=5000):
    succ, pred = adj(g)
    srcs = [x for x in succ if not pred[x]]
    out = []

    def rec(p):
        if len(out) >= limit:
            return
        if not succ[p[-1]]:
            out.append(list(p))
            return
        for y in succ[p[-1]]:
            p.append(y)
            rec(p)
            p.pop()
    for s in srcs:
        rec([s])
    return out


# ---------------------------------------------------------------- C15 brute force
def subset_sums_with_mult(gens, mult):
    """All sums sum_i c_i*g_i with 0 <= c_i <= mult."""
    sums = {0}
    for gval in gens:
        new = set()
        for s in sums:
            for c in range(mult + 1):
                new.add(s + c * gval)
        sums = new
    return sums


def min_gen_set_size(numbers, total, mult=1, kmax=5, partition_constraints=None):
    """Smallest k such that a multiset of k non-negative integers summing to total generates
    every number (each element used at most ``mult`` times); None if none up to kmax."""
    numbers = [n for n in numbers]
    for k in range(1, kmax + 1):
        for gens in _partitions_into(total, k):
            sums = subset_sums_with_mult(gens, mult)
            if all(n in sums for n in numbers):
                if partition_constraints and not all(_partition_ok(gens, c) for c in partition_constraints):
                    continue
                return k, list(gens)
    return None, None


def _partitions_into(total, k, lo=0):
    """Non-decreasing k-tuples of non-negative ints summing to total."""
    if k == 1:
        if total >= lo:
            yield (total,)
        return
    for first in range(lo, total // k + 1):
        for rest in _partitions_into(total - first, k - 1, first):
            yield (first,) + rest


def _partition_ok(gens, constraint):
    """Can the generating multiset be split into groups whose sums are the constraint's
    numbers (every element used exactly once)?"""
    gens = list(gens)
    target = list(constraint)

    def rec(i, sums):
        if i == len(gens):
            return all(abs(a - b) < 1e-9 for a, b in zip(sums, target))
        for j in range(len(target)):
            if sums[j] + gens[i] <= target[j] + 1e-9:
                sums[j] += gens[i]
                if rec(i + 1, sums):
                    return True
                sums[j] -= gens[i]
        return False
    return rec(0, [0] * len(target))


def generates(gens, numbers, total, mult=1):
    if abs(sum(gens) - total) > 1e-6:
        return False
    sums = subset_sums_with_mult(gens, mult)
    return all(any(abs(n - s) < 1e-6 for s in sums) for n in numbers)


def min_set_cover_weight(universe, subsets, weights):
    best = None
    best_sel = None
    n = len(subsets)
    for mask in range(1 << n):
        cov = set()
        w = 0
        for i in range(n):
            if mask >> i & 1:
                cov.update(subsets[i])
                w += weights[i]
        if all(u in cov for u in universe):
            if best is None or w < best - 1e-12:
                best = w
                best_sel = [i for i in range(n) if mask >> i & 1]
    return best, best_sel


# ---------------------------------------------------------------- C06 sequential references
def _path(succ, a, b):
    """Some path a -> b (list of nodes) by DFS, or None."""
    prev = {a: None}
    st = [a]
    while st:
        x = st.pop()
        if x == b:
            break
        for y in succ.get(x, []):
            if y not in prev:
                prev[y] = x
                st.append(y)
    if b not in prev:
        return None
    p = [b]
    while prev[p[-1]] is not None:
        p.append(prev[p[-1]])
    return p[::-1]


def _reach_without(succ, a, b, banned):
    seen = {a}
    st = [a]
    while st:
        x = st.pop()
        if x == b:
            return True
        for y in succ.get(x, []):
            if (x, y) == banned or y in seen:
                continue
            seen.add(y)
            st.append(y)
    return b in seen


def bridges_in_order(succ, a, b):
    """All edges lying on every a -> b path, in path order (edge-deletion reachability)."""
    p = _path(succ, a, b)
    if p is None:
        return None
    out = []
    for e in zip(p[:-1], p[1:]):
        if not _reach_without(succ, a, b, e):
            out.append(e)
    return out


def safe_sequence_ref(succ, source, sink, item):
    """Reference for safetypathcovers.safe_sequences on one item (edge tuple or list of edges)."""
    if isinstance(item, tuple):
        u, v, mid = item[0], item[-1], [item]
    else:
        u, v, mid = item[0][0], item[-1][-1], list(item)
    left = bridges_in_order(succ, source, u)
    right = bridges_in_order(succ, v, sink)
    return left + mid + right


def safe_path_ref(succ, pred, e):
    """Reference for safetypathcovers.safe_paths on one edge: univocal extension."""
    u, v = e
    left = []
    while len(pred.get(u, [])) == 1:
        x = pred[u][0]
        left.append((x, u))
        u = x
    path = left[::-1] + [e]
    while len(succ.get(v, [])) == 1:
        x = succ[v][0]
        path.append((v, x))
        v = x
    return path


def contains_subsequence(route_edges, seq):
    i = 0
    for e in route_edges:
        if i < len(seq) and e == seq[i]:
            i += 1
    return i == len(seq)


# ---------------------------------------------------------------- product reachability (walks)
def exists_walk(succ, source, sink, seqs, must_use=None, must_fail=None):
    """Is there a source->sink walk that contains every sequence of ``seqs`` as a subsequence
    (greedy matching), traverses every edge of ``must_use`` at least once, and does NOT contain
    ``must_fail`` (a sequence) as a subsequence?  BFS over (node, matched prefixes, used flags)."""
    seqs = [list(map(tuple, s)) for s in seqs]
    must_use = [tuple(e) for e in (must_use or [])]
    fail = list(map(tuple, must_fail)) if must_fail is not None else None
    start = (source, tuple(0 for _ in seqs), tuple(False for _ in must_use), 0)
    seen = {start}
    st = [start]
    while st:
        node, ps, used, pf = st.pop()
        if node == sink:
            if all(p == len(s) for p, s in zip(ps, seqs)) and all(used) and (fail is None or pf < len(fail)):
                return True
        for y in succ.get(node, []):
            e = (node, y)
            nps = tuple(p + 1 if p < len(s) and s[p] == e else p for p, s in zip(ps, seqs))
            nused = tuple(u or (e == m) for u, m in zip(used, must_use))
            npf = pf
            if fail is not None and pf < len(fail) and fail[pf] == e:
                npf = pf + 1
            stt = (y, nps, nused, npf)
            if stt not in seen:
                seen.add(stt)
                st.append(stt)
    return False
