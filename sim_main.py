"""Entry point for every role of the simulator (launcher, batch, one, shrink)."""
import os
import sys
import warnings

HERE = os.path.dirname(os.path.abspath(__file__))
if HERE not in sys.path:
    sys.path.insert(0, HERE)
warnings.filterwarnings("ignore")
os.environ.setdefault("OMP_NUM_THREADS", "1")

REPO = os.environ.get("VERIF_REPO", "/repo")   # VERIF_REPO: run against a scratch worktree (own testing only)
if REPO != "/repo":
    sys.path.insert(0, REPO)

if __name__ == "__main__":
    from sim import runner
    # flowpaths must come from the repository's current working tree
    import flowpaths
    assert os.path.realpath(flowpaths.__file__).startswith(os.path.realpath(REPO) + "/"), flowpaths.__file__
    sys.exit(runner.main(sys.argv[1:]))
