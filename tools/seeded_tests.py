"""Confirm that each seeded change still passes the pinned baseline: apply it in a scratch worktree, run the
baseline command there, compare with BASELINE.json's stable_pass list.  Usage: seeded_tests.py [ids...]"""
import json, os, subprocess, sys, tempfile, xml.etree.ElementTree as ET
from concurrent.futures import ThreadPoolExecutor

V = os.path.dirname(os.path.dirname(os.path.abspath(__file__)))
B = json.load(open("/root/.vp/BASELINE.json"))
ids = sys.argv[1:] or sorted(os.listdir(os.path.join(V, "seeded")))


def one(sid):
    d = os.path.join(V, "seeded", sid)
    meta = json.load(open(os.path.join(d, "meta.json"))) if os.path.exists(os.path.join(d, "meta.json")) else {}
    wt = "/tmp/wt/test_" + sid
    subprocess.run(["git", "-C", "/repo", "worktree", "remove", "--force", wt], capture_output=True)
    subprocess.run(["git", "-C", "/repo", "worktree", "add", "--detach", wt, meta.get("base_commit", "HEAD")], capture_output=True, check=True)
    try:
        ap = subprocess.run(["git", "-C", wt, "apply", os.path.join(d, "patch.diff")], capture_output=True, text=True)
        if ap.returncode:
            return sid, "APPLY-FAILED", []
        x = tempfile.mktemp(suffix=".xml", dir="/tmp")
        cmd = B["cmd"].replace("cd /repo", "cd " + wt).replace("<file>", x)
        subprocess.run(cmd, shell=True, stdout=subprocess.DEVNULL, stderr=subprocess.DEVNULL)
        ok = set()
        for tc in ET.parse(x).getroot().iter("testcase"):
            if not any(c.tag in ("failure", "error", "skipped") for c in tc):
                ok.add(tc.get("classname") + "::" + tc.get("name"))
        os.remove(x)
        missing = [t for t in B["stable_pass"] if t not in ok]
        return sid, "PASS" if not missing else "FAIL", missing
    finally:
        subprocess.run(["git", "-C", "/repo", "worktree", "remove", "--force", wt], capture_output=True)


with ThreadPoolExecutor(6) as ex:
    for sid, res, missing in ex.map(one, ids):
        print(sid, res, missing[:3], flush=True)
