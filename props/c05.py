"""C05 - optimisation options never change solvability or the optimal objective.

Differential: every world is run once with all optional optimisations off (reference) and
with seeded flag vectors; safety lists are computed on the scheduled thread pool, bound-based
fixing goes through the queued-bound state, auxiliary solves receive status faults."""
import copy
import json
import random

from props import modelruns as mr
from sim import gen, models, sched, simrun
from sim import world as W
from sim.core import H, Violation, digest

ID = "C05"
LEVEL = "exploration"
BATCH = 4
QUICK_WORLDS = 480
THOROUGH_BUDGET_S = 900
RUN_TIMEOUT = 180
RULE = ("world = (model class accepting optimization_options, tiny instance satisfying the model's documented assumptions) from the seed; "
        "reference run = all optional optimisations off; compared runs = seeded flag vectors over the documented DAG / cyclic flags "
        "(mutually exclusive pairs skipped), with the safety thread pool under a seeded interleaving and, for flags that add auxiliary "
        "solves, a status fault on an auxiliary invocation.  solved flag and objective must equal the reference.  distinct = (class, "
        "instance, flag vector, fault, interleaving digest); non-trivial = the flagged run used at least one solver invocation and at "
        "least one non-default flag, thread switch or auxiliary fault took effect.")
COMPONENTS = {"real": ["flowpaths models, safety computations on real (scheduled) threads, SolverWrapper incl. queued bound updates", "HiGHS"],
              "stub": ["ThreadPoolExecutor/Lock (scheduler)", "status faults on auxiliary invocations", "virtual clock"], "not_run": ["gurobi"]}
ASSUMPTIONS = ["the flags-off run is the reference model", "least-absolute-errors models are run without trusted edges, the only setting in which their safety assumption is documented"]

DAG_OFF = {"optimize_with_safe_paths": False, "optimize_with_safe_sequences": False, "optimize_with_safe_zero_edges": False,
           "optimize_with_subpath_constraints_as_safe_sequences": False, "optimize_with_safety_as_subpath_constraints": False,
           "optimize_with_safety_from_largest_antichain": False}
FD_OFF = {"optimize_with_greedy": False, "optimize_with_flow_safe_paths": False}
MFD_OFF = {"use_min_gen_set_lowerbound": False, "use_subgraph_scanning_lowerbound": False, "optimize_with_guessed_weights": False}
CYC_OFF = {"optimize_with_safe_sequences": False, "optimize_with_safe_sequences_allow_geq_constraints": False,
           "optimize_with_safe_sequences_fix_via_bounds": False, "optimize_with_safe_sequences_fix_zero_edges": False,
           "optimize_with_safety_as_subset_constraints": False, "optimize_with_max_safe_antichain_as_subset_constraints": False}
MFDC_OFF = {"use_min_gen_set_lowerbound": False, "optimize_with_guessed_weights": False}

CLASSES = ["kFlowDecomp", "MinFlowDecomp", "kMinPathError", "kPathCover", "MinPathCover", "kLeastAbsErrors",
           "kFlowDecompCycles", "MinFlowDecompCycles", "kMinPathErrorCycles", "kPathCoverCycles", "MinPathCoverCycles", "kLeastAbsErrorsCycles",
           "MinFlowDecomp", "MinFlowDecompCycles", "kFlowDecompCycles", "kMinPathErrorCycles"]


# witness of the listed known finding C05.objective_changed (k-dependent repetition cap of the walk models)
PINNED = [json.loads('{"world": {"args": {"flow_attr_origin": "node", "optimization_options": {}, "solver_options": {"threads": 1}, "weight_type": "int"}, "class": "MinFlowDecompCycles", "graph": {"edges": [["A", "d", null], ["10", "A", null], ["b", "source", null], ["A", "b", null], ["source", "A", null], ["A", "u", null], ["d", "A", null]], "kind": "digraph", "node_weights": [["A", null], ["d", 0], ["10", 1], ["b", 1], ["source", 1], ["u", 1]], "nodes": ["A", "d", "10", "b", "source", "u"], "routes": [["10", "A", "b", "source", "A", "u"]], "weights": [1]}}, "flags": {"optimize_with_guessed_weights": true}, "sim": {"faults": [], "latency": "instant", "only_aux_faults": true, "reply": "canonical", "reply_seed": 934963574}, "sched": {"pct_changes": 2, "policy": "pct", "seed": 365675431, "switch_p": 0.1}}')]


def off_flags(cname):
    if cname in models.DAG_CLASSES:
        o = dict(DAG_OFF)
        if cname in ("kFlowDecomp", "MinFlowDecomp"):
            o.update(FD_OFF)
        if cname == "MinFlowDecomp":
            o.update(MFD_OFF)
    else:
        o = dict(CYC_OFF)
        if cname == "MinFlowDecompCycles":
            o.update(MFDC_OFF)
    return o


def rand_flags(rng, cname):
    base = off_flags(cname)
    o = {}
    for f in base:
        r = rng.random()
        if r < 0.45:
            o[f] = True
        elif r < 0.6:
            o[f] = False
        # else: leave the library default
    if cname in models.DAG_CLASSES:
        if o.get("optimize_with_safe_sequences"):
            o["optimize_with_safe_paths"] = False
        if o.get("optimize_with_flow_safe_paths"):
            o["optimize_with_safe_paths"] = False
            o["optimize_with_safe_sequences"] = False
        if cname == "MinFlowDecomp" and o.get("use_min_gen_set_lowerbound") and rng.random() < 0.4:
            o["use_min_gen_set_lowerbound_partition_constraints"] = True
    else:
        if o.get("optimize_with_safety_as_subset_constraints") and o.get("optimize_with_max_safe_antichain_as_subset_constraints"):
            o.pop("optimize_with_max_safe_antichain_as_subset_constraints")
        if cname == "MinFlowDecompCycles" and o.get("optimize_with_guessed_weights"):
            if rng.random() < 0.5:
                o["add_min_gen_set_to_given_weights"] = True
            if rng.random() < 0.3:
                o["optimize_with_given_weights_num_free_walks"] = rng.choice([1, 2])
    return o


def gen_world(seed, tier):
    rng = random.Random(H(seed, "c05"))
    w = mr.gen_world(seed, CLASSES, want_constraints=0.5, node_p=0.15, tag="c05w", length_cov_p=0.6)
    a = w["args"]
    # keep inside the documented assumptions of the safety optimisations
    a.pop("solution_weights_superset", None)
    a.pop("additional_starts", None)
    a.pop("additional_ends", None)
    cov_keys = [k for k in a if k.endswith("_coverage") or k.endswith("_coverage_length")]
    a["optimization_options"] = {}
    a.setdefault("solver_options", {})
    a["solver_options"].pop("time_limit", None)
    a["solver_options"].pop("use_also_custom_timeout", None)
    a["solver_options"]["threads"] = rng.choice([1, 2, 3, 4, 8])
    if w["class"] == "MinFlowDecomp":
        w["knobs"] = {"subgraph_lowerbound_size": rng.choice([2, 3, 4, 5]), "subgraph_lowerbound_shift": rng.choice([1, 2])}
        if cov_keys and a.get("subpath_constraints"):
            w["knobs"]["subgraph_lowerbound_size"] = 2 + w["knobs"]["subgraph_lowerbound_size"] % 2      # narrow windows cut constraints
    return w


def plans(world, info, seed, tier):
    rng = random.Random(H(seed, "c05plans"))
    specs = []
    for _ in range(2 if tier == "quick" else 4):
        flags = rand_flags(rng, world["class"])
        a_ = world["args"]
        if (a_.get("subpath_constraints") or a_.get("subset_constraints")) and rng.random() < 0.6:
            # constraints present: exercise the flags that turn safety information into constraints
            if world["class"] in models.DAG_CLASSES:
                flags["optimize_with_safety_as_subpath_constraints"] = True
                flags.pop("optimize_with_subpath_constraints_as_safe_sequences", None)
            else:
                flags["optimize_with_safe_sequences"] = True
        rs = random.Random(H(seed, "c05plans-scan", len(specs)))
        if world["class"] == "MinFlowDecomp" and a_.get("subpath_constraints") and any(
                k_.endswith("_coverage") or k_.endswith("_coverage_length") for k_ in a_) and rs.random() < 0.6:
            # partially coverable constraints and the window-wise lower bound (windows lowered to 2-5 nodes by the knobs)
            flags["use_subgraph_scanning_lowerbound"] = True
        sim = {"latency": "instant", "reply": "canonical", "reply_seed": rng.randrange(1 << 30), "faults": []}
        if rng.random() < 0.5:
            sim["faults"] = [{"at": rng.randrange(0, 3), "kind": rng.choice(["interrupt", "time_limit_no_incumbent", "time_limit_with_incumbent", "unknown"])}]
            sim["only_aux_faults"] = True
        specs.append({"world": world, "flags": flags, "sim": sim,
                      "sched": {"seed": rng.randrange(1 << 30), "policy": rng.choice(["random", "pct"]), "switch_p": rng.choice([0.02, 0.1, 0.3]),
                                "pct_changes": rng.randint(1, 3)}})
    return specs


def _with_flags(world, flags):
    w = copy.deepcopy(world)
    w["args"]["optimization_options"] = dict(flags)
    return w


def _knobs(world):
    import flowpaths as fp
    for k, v in (world.get("knobs") or {}).items():
        setattr(fp.MinFlowDecomp, k, v)


def _close(a, b):
    try:
        return abs(float(a) - float(b)) <= 1e-6 * max(1.0, abs(float(a)), abs(float(b)))
    except Exception:
        return a == b


def execute(spec):
    world = spec["world"]
    cname = world["class"]
    _knobs(world)
    try:
        ref_out, _, _ = mr.run(_with_flags(world, off_flags(cname)), {"latency": "instant", "reply": "canonical", "faults": []}, seed=0)
        sc = spec["sched"]
        S = sched.Scheduler(sc["seed"], policy=sc["policy"], switch_p=sc["switch_p"], pct_changes=sc["pct_changes"], max_steps=600000)
        sched_err = None
        try:
            with sched.scheduled(S):
                out, w, model = mr.run(_with_flags(world, spec["flags"]), spec["sim"], seed=H(spec["sim"]["reply_seed"], "c05"))
        except (sched.Deadlock, sched.Livelock) as e:
            sched_err = e
            out = None
    except W.Discard as e:
        return {"discard": str(e)}
    vs = []

    def V(clause, detail):
        vs.append(Violation(ID, "C05." + clause, cname, detail))
    counters = {"class:" + cname: 1}
    if sched_err is not None:
        V("deadlock_or_livelock", {"msg": str(sched_err)})
    elif ref_out["construct_exc"] or ref_out["solve_exc"] or ref_out["system_exit"]:
        counters["reference_exception:%s" % (ref_out["construct_exc"] or ref_out["solve_exc"] or "SystemExit")] = 1
    else:
        if out["construct_exc"]:
            if out["construct_exc"] == "ValueError":
                counters["flag_combination_rejected"] = 1     # documented ValueError: skipped
            else:
                V("exception_with_flags", {"exc": out["construct_exc"], "frame": out.get("construct_frame"), "msg": out.get("construct_msg"), "flags": spec["flags"]})
        elif out["solve_exc"] == "ValueError" and str(out.get("solve_frame", "")).endswith(":__init__"):
            counters["flag_combination_rejected"] = 1         # Min* classes build their k-models inside solve()
        elif out["solve_exc"] or out["system_exit"]:
            V("exception_with_flags", {"exc": out["solve_exc"] or "SystemExit", "frame": out.get("solve_frame"), "msg": out.get("solve_msg"), "flags": spec["flags"]})
        else:
            # kLeastAbsErrors(Cycles) with error_scaling report the unscaled error sum while minimising the scaled one:
            # the reported value is then not determined by the optimum, only solvability is compared (cf. C07)
            obj_meaningful = not (world["args"].get("error_scaling") and cname in ("kLeastAbsErrors", "kLeastAbsErrorsCycles"))
            differs = (out["solved"] != ref_out["solved"]) or (obj_meaningful and out["solved"] and not _close(out.get("objective"), ref_out.get("objective")))
            if differs:
                # is it the library or the solver?  re-solve both sides under other native solver configurations
                from sim import crosscheck

                def side(flags):
                    def fn(cfg):
                        o, _, _ = mr.run(_with_flags(world, flags), cfg, seed=0)
                        return (o["solved"], o.get("objective"), o.get("solve_exc") or o.get("construct_exc"))
                    return fn
                try:
                    rs, rbest, rall = crosscheck.best_over_configs(side(off_flags(cname)), {"latency": "instant"})
                    fs, fbest, fall = crosscheck.best_over_configs(side(spec["flags"]), {"latency": "instant"})
                except W.Discard as e:
                    return {"discard": str(e)}
                if rs != fs:
                    V("solvability_changed", {"reference_solved": rs, "solved": fs, "flags": spec["flags"], "faults_fired": out["fired"],
                                              "reference_runs": rall, "flagged_runs": fall})
                elif rs and obj_meaningful and not crosscheck.close(rbest, fbest):
                    V("objective_changed", {"reference": rbest, "objective": fbest, "flags": spec["flags"], "faults_fired": out["fired"],
                                            "reference_runs": rall, "flagged_runs": fall})
                else:
                    counters["solver_not_truthful_discrepancy_dismissed"] = 1
            counters["status:" + ("solved" if out["solved"] else "unsolved")] = 1
    seen, uniq = set(), []
    for v in vs:
        if v.key not in seen:
            seen.add(v.key)
            uniq.append(dict(v))
    nflags = sum(1 for k, v in spec["flags"].items() if v)
    for k, v in spec["flags"].items():
        if v is True:
            counters["flag_on:" + k] = 1
    fired = dict(out["fired"]) if out else {}
    return {"violations": uniq, "digest": digest([ref_out["digest"], out["digest"] if out else None, S.switches]),
            "sig": digest([cname, world["graph"]["edges"], sorted(spec["flags"].items()), spec["sim"]["faults"], S.interleaving_digest()]),
            "nontrivial": bool(out and out["n_inv"] > 0 and (nflags > 0 or len(S.switches) > 2 or sum(fired.values()) > 0)),
            "fired": fired, "probes": dict(out["probes"], context_switches=len(S.switches), scheduled_maps=S.maps) if out else {},
            "sim_s": (out["sim_s"] if out else 0) + ref_out["sim_s"], "invocations": (out["n_inv"] if out else 0) + ref_out["n_inv"],
            "counters": counters,
            "summary": {"reference": [ref_out["solved"], ref_out.get("objective")], "flagged": [out["solved"], out.get("objective")] if out else None}}


def sample_view(spec, outcome):
    return {"class": spec["world"]["class"], "graph": {k: spec["world"]["graph"].get(k) for k in ("edges", "node_weights")},
            "args": spec["world"]["args"], "flags": spec["flags"], "sim": spec["sim"], "sched": spec["sched"], "summary": outcome.get("summary")}


def shrink(spec):
    for k in list(spec["flags"].keys()):
        c = copy.deepcopy(spec); del c["flags"][k]; yield c
    if spec["sim"]["faults"]:
        c = copy.deepcopy(spec); c["sim"]["faults"] = []; yield c
    args = spec["world"]["args"]
    for k in ("subpath_constraints", "subset_constraints", "elements_to_ignore", "error_scaling"):
        if k in args:
            c = copy.deepcopy(spec); del c["world"]["args"][k]; yield c
    if args.get("solver_options", {}).get("threads", 4) != 1:
        c = copy.deepcopy(spec); c["world"]["args"]["solver_options"]["threads"] = 1; yield c
