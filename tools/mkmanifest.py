"""Regenerates /verif/MANIFEST.json from the table below (only checks whose module exists)."""
import json, os
V = os.path.dirname(os.path.dirname(os.path.abspath(__file__)))
CHECKS = {
 "C13": ("fault_enumeration", "3 C13",
   "For each sampled world the fault-free run is the executable reference; then every solver-invocation index of that run (first and last included) receives an injected fault (quick: 6 seeded kinds per index, thorough: all 25 kinds - every member of HighsModelStatus other than optimal/infeasible, plus exception, overshoot and clock faults), plus multi-fault, clock-jump and budget-exhaustion plans and plans in which an undisturbed solve() is followed by a faulted solve() on the same object, each followed by a fault-free recovery run. Checked: solved only after a proven optimum, never another answer than the reference, no skipped inconclusive k, getters raise when unsolved (also before solve), no SystemExit/hang, recovery, no armed alarm left. Systematic over positions x kinds per world; worlds themselves are sampled.",
   "HiGHS truthful about optimal/infeasible and deterministic with 1 thread; statuses other than the two genuine limit statuses are stubbed at the HighsCustom seam; Gurobi backend not run.",
   "deterministic simulation: fault enumeration over solver invocations (status/time-limit/exception/clock/alarm faults) against the fault-free reference run"),
 "C01": ("exploration", "3 C01",
   "Every model class is solved through the simulated solver channel under seeded admissible replies (canonical / alternative optimum / float noise within tolerance), for Min* classes also with status faults on non-final invocations, plus variant plans (given weights, greedy route with padded k and decimal float weights, a second solve() on the same object; 6 % of the worlds carry an isolated node); each returned route is validated against the caller's own graph by an independent reference. Sampled worlds, seeded search.",
   "alternative optima come from HiGHS itself (objective row fixed at z*, seeded secondary objective); graphs <= 7 nodes / 10 edges.",
   "deterministic simulation: seeded search over solver replies (alternative optima, float noise, status faults) with route-validity oracle on the caller's graph"),
 "C02": ("exploration", "3 C02",
   "Flow decomposition classes solved on every route (greedy incl. the abandoned greedy shortcut, MILP, given weights, guessed weights incl. the fault 'auxiliary model timed out', re-solve of the same object; 'lap' worlds in which every element to explain lies on a cycle taken several times and the entry / exit edges are ignored) under seeded admissible replies; flow conservation recomputed from the returned routes only, exactly for int and within 1e-6 relative for float; weight types checked.",
   "same trusted base as C01.",
   "deterministic simulation: seeded search over solver replies and auxiliary-solve faults with flow re-computation oracle"),
 "C05": ("exploration", "3 C05",
   "Each world is run with all optional optimisations off (reference) and with seeded flag vectors; safety lists are computed on the scheduled thread pool with a seeded interleaving, bound-based fixing goes through the queued-bound state, and auxiliary solves receive status faults. Solved flag and objective must equal the reference.",
   "flag-off run is the reference model; models' documented assumptions respected (least-abs-errors only without trusted edges).",
   "deterministic simulation: differential runs over the option swarm with scheduled safety thread pool and faults confined to auxiliary solves"),
 "C06": ("exploration", "3 C06",
   "safe_paths / safe_sequences run under the baton-passing scheduler (real threads, sys.settrace pre-emption at every line of safetypathcovers.py and at every lock operation, seeded random-walk and PCT schedules); for every explored interleaving the result must equal the sequential reference position by position, shared pools must be restored, no deadlock/livelock. Exact safety criteria for the cyclic/dominator/flow-safe functions are sampled on the same tiny instances and reported separately.",
   "pre-emption at line granularity (opcode in thorough); CPython C-level operations atomic; HiGHS not involved.",
   "deterministic simulation: seeded thread-schedule search (baton-passing scheduler) against a sequential reference model"),
 "C10": ("exploration", "3 C10",
   "Containment clause decided: in every solved model under every delivered optimum each subpath/subset constraint is covered to the requested fraction by a single returned route (recomputed from the routes). Variant plans: safety-as-constraints options switched on, a length variant (seeded lengths incl. 0, tightest length fraction the generating routes reach; for covers a zero-length edge that only one generating route uses), a greedy-route variant (a constraint an independent max-bottleneck peeling violates, with and without a length attribute that must then play no part). Witness clause: constraints the generating routes satisfy never make a model infeasible. Ignore / scale-0-equals-ignored / additional start-end / constraints-only-restrict relations are monitored on the same runs (input-sampled, differences confirmed by the solver cross-check).",
   "same trusted base as C01; coverage comparison with 1e-9 slack.",
   "deterministic simulation: seeded search over solver replies with constraint-containment oracle"),
 "C12": ("exploration", "3 C12",
   "Seeded histories of wrapper calls (add_variables, product/piecewise helpers, set_objective min/max, queue_fix / queue lower bound, fix_variable, optimize, get_values, rejected objectives, custom-timeout overshoot and changes of the documented wrapper attributes) checked step by step against an executable reference model of the wrapper (expected column bounds, cost vector, sense) and a brute-force optimum over the integer grid.",
   "HiGHS solves the tiny MILPs exactly; helper preconditions as documented.",
   "deterministic simulation: seeded call histories against an executable reference model of the wrapper with brute-force optimiser"),
 "C14": ("exploration", "3 C14",
   "A real walk model is built; the solver is a stub that delivers fabricated admissible multiplicity vectors (nested/touching closed walks, self-loops, repeated vertices, float noise, all-zero); get_solution_walks() must return one source-to-sink walk per layer whose edge multiset equals the delivered multiplicities.",
   "solver = stub for this check (stated in evidence); walk model construction is real code.",
   "deterministic simulation: stubbed solver replies (fabricated Eulerian multiplicity vectors with noise) against a multiset-equality oracle"),
 "C15": ("exploration", "3 C15",
   "MinGenSet / MinSetCover solved through the channel with status faults at every k, alternative optima and integrality noise on the reply; result compared with a brute-force optimum on tiny instances (the minimum itself is input-sampled).",
   "brute force is the reference model; instances <= 5 numbers <= 12, universes <= 6.",
   "deterministic simulation: seeded replies/faults on the k-search with brute-force reference model"),
 "C17": ("exploration", "3 C17",
   "Seeded query histories (20-60 calls, repeated, interleaved, on two graph objects) against cached stDAG / stDiGraph objects; every answer equals BFS / brute-force antichain / recomputed peeling and earlier answers are unchanged later.",
   "graphs <= 7 nodes / 10 edges.",
   "deterministic simulation: seeded query histories (cold/warm cache) against plain-search reference models"),
 "C18": ("exploration", "3 C18",
   "Seeded histories of constructions/solves/getters over a pool of shared caller-owned objects with faults inside the history; after every operation all caller objects and all mutable constructor defaults equal their pristine snapshot; every construct+solve is re-evaluated in isolation (fresh arguments, fresh world) and must agree; repeated getters agree.",
   "isolation re-evaluation runs in the same forked child on deep copies with a different id offset.",
   "deterministic simulation: seeded call histories over aliased caller objects with snapshot and isolated re-evaluation oracles"),
 "C20": ("exploration", "3 C20",
   "Seeded file descriptions are written to a simulated disk; the storage layer delivers them faithfully or torn / truncated / with a line lost or duplicated / a byte flipped / CRLF / I/O error; read_graphs must agree with an independent reference parser applied to the bytes actually delivered (both reject, or both accept and agree).",
   "reference parser written from the docstrings; graphs without source or sink only required not to be returned wrongly.",
   "deterministic simulation: storage fault injection (torn/truncated/lost/duplicated/flipped/IO error) against a reference parser"),
}
NA = json.load(open(os.path.join(V, "MANIFEST.json")))["not_applicable"]
na_ids = {x["property_id"] for x in NA}
checks = []
pending = []
for pid, (lvl, ref, text, note, tech) in CHECKS.items():
    if not os.path.exists(os.path.join(V, "props", pid.lower() + ".py")):
        pending.append(pid)
        continue
    checks.append({
        "property_id": pid,
        "quick_cmd": "./check %s --tier quick" % pid,
        "thorough_cmd": "./check %s --tier thorough" % pid,
        "evidence_file": "/verif/evidence/%s.json" % pid,
        "replay_cmd_template": "./check %s --replay {path}" % pid,
        "engine": "simworld",
        "level_claimed": {"category": lvl, "text": text, "design_ref": "DESIGN.md section " + ref},
        "level_note": note,
        "technique": tech,
    })
m = json.load(open(os.path.join(V, "MANIFEST.json")))
m["checks"] = checks
m["engines"] = [{"name": "simworld", "path": "/verif/sim", "serves_properties": [c["property_id"] for c in checks],
                 "kind_free_text": "single-process deterministic simulator: seeded runner (fork per run), virtual clock/SIGALRM/id seams, simulated solver channel on top of real HiGHS, baton-passing thread scheduler, simulated storage"}]
m["not_applicable"] = [x for x in NA if x["property_id"] not in CHECKS] + [
    {"property_id": p, "reason": "claimed in DESIGN.md but its check is not built yet in this commit (build order, DESIGN.md section 8); not a not-applicable verdict"} for p in pending]
m["notes"] = "VERIF_SEED, VERIF_TIER, VERIF_WORKERS, VERIF_BUDGET_S are honoured. Exit codes: 0 held, 1 VIOLATION, 2 harness error."
json.dump(m, open(os.path.join(V, "MANIFEST.json"), "w"), indent=1)
print("checks:", [c["property_id"] for c in checks], "pending:", pending)
