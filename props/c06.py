"""C06 - safe paths / sequences.  Decided part: the thread-pooled DAG functions under the
baton-passing scheduler, against a sequential reference, for every explored interleaving.
Monitored part (input-sampled): exact safety / incompatibility / pruning criteria."""
import copy
import random

from sim import gen, ref, sched, models
from sim import world as W
from sim.core import H, Violation, digest

ID = "C06"
LEVEL = "exploration"
BATCH = 12
QUICK_WORLDS = 480
THOROUGH_BUDGET_S = 900
RUN_TIMEOUT = 90
RULE = ("world = (tiny DAG, trusted items = edges or subpath constraints, function safe_paths / safe_sequences, pool size 1-8, schedule "
        "policy random-walk (switch probability 0.02-0.6) or PCT (1-3 priority change points)) from the seed; the function runs on real "
        "threads of which only the baton holder executes, pre-empted at every line of safetypathcovers.py and every lock operation; the "
        "result must equal the sequential reference position by position and the per-worker pools must be restored.  distinct = hash of the "
        "context-switch sequence; non-trivial = at least two threads ran and at least one context switch happened inside a task.  "
        "Monitored (input-sampled, counted separately): exact safety of each DAG sequence by path enumeration, and - on cyclic graphs - "
        "safety of maximal_safe_sequences_via_dominators, pairwise incompatibility of walks_to_fix and soundness of edges_set_to_zero "
        "by product reachability.")
COMPONENTS = {"real": ["safetypathcovers.safe_paths / safe_sequences / find_all_bridges on real threads", "stDAG", "walk model construction for the monitored part"],
              "stub": ["ThreadPoolExecutor (SimExecutor: same FIFO pool structure, scheduler decides who runs)", "threading.Lock inside safetypathcovers (SimLock)"],
              "not_run": ["HiGHS solve", "OS thread scheduler decisions"]}
ASSUMPTIONS = ["pre-emption at line granularity (opcode in part of the thorough tier); C-level operations atomic as under the GIL"]


def gen_world(seed, tier):
    rng = random.Random(H(seed, "c06"))
    mode = rng.choices(["safe_sequences", "safe_paths", "cyclic_monitor", "flow_safe_monitor"], [6, 3, 2, 1])[0]
    if mode == "flow_safe_monitor":
        g = gen.dag_bowtie(rng) if rng.random() < 0.5 else gen.dag_braid(rng, max_routes=4)
        return {"mode": mode, "graph": g, "seed": rng.randrange(1 << 30), "no_duplicates": rng.random() < 0.5}
    if mode == "cyclic_monitor":
        g = gen.digraph_cyclic(rng, max_nodes=5, max_edges=7, max_routes=3) if rng.random() < 0.5 else gen.digraph_rich(rng, max_nodes=5, max_extra=4)
        return {"mode": mode, "graph": g, "seed": rng.randrange(1 << 30),
                "xfrac": rng.choice([1.0, 1.0, 0.6, 0.3]), "k": rng.randint(1, 3)}
    g = gen.dag_layered(rng, max_nodes=7, max_edges=10, max_routes=4)
    items = []
    if mode == "safe_sequences" and rng.random() < 0.4:
        items = [c for c in gen.subpath_constraints(rng, g, max_c=3)]
        items = [{"c": c} for c in items]
    edges = [[u, v] for u, v, _ in g["edges"]]
    if rng.random() < 0.7:
        items += [{"e": e} for e in edges]
    else:
        items += [{"e": e} for e in edges if rng.random() < 0.5] or [{"e": edges[0]}]
    if mode == "safe_sequences" and rng.random() < 0.3:
        rng.shuffle(items)
    pol = rng.choice(["random", "random", "pct"])
    extra = {}
    if rng.random() < 0.3 and len(g["nodes"]) >= 3:
        extra = {"additional_starts": [rng.choice(g["nodes"])], "additional_ends": [rng.choice(g["nodes"])] if rng.random() < 0.7 else []}
    return {"mode": mode, "graph": g, "items": items, "threads": rng.choice([1, 2, 2, 3, 4, 4, 8]), "st": extra,
            "sched": {"seed": rng.randrange(1 << 30), "policy": pol, "switch_p": rng.choice([0.02, 0.1, 0.3, 0.6]),
                      "pct_changes": rng.randint(1, 3), "opcode": tier == "thorough" and rng.random() < 0.25},
            "no_duplicates": rng.random() < 0.15, "include_source_sink": rng.random() < 0.3}


def plans(world, info, seed, tier):
    return [{"world": world}]


def _items(world, SG):
    out = []
    for it in world["items"]:
        if "e" in it:
            out.append(tuple(it["e"]))
        else:
            out.append([tuple(e) for e in it["c"]])
    if world.get("include_source_sink") and world["mode"] == "safe_paths":
        out += list(SG.source_edges)[:1]
    return out


def execute(spec):
    world = spec["world"]
    if world["mode"] == "cyclic_monitor":
        return _execute_cyclic(spec)
    if world["mode"] == "flow_safe_monitor":
        return _execute_flow_safe(spec)
    import flowpaths as fp
    from flowpaths.utils import safetypathcovers as spc
    sim = W.SimWorld(world["sched"]["seed"], {})
    vs = []

    def V(clause, detail):
        vs.append(Violation(ID, "C06." + clause, world["mode"], detail))
    with W.active(sim):
        G = gen.to_nx(world["graph"], "flow")
        st = world.get("st") or {}
        SG = fp.stDAG(G, additional_starts=st.get("additional_starts"), additional_ends=st.get("additional_ends"))
        items = _items(world, SG)
        succ = {u: list(SG.successors(u)) for u in SG.nodes()}
        pred = {u: list(SG.predecessors(u)) for u in SG.nodes()}
        edges_before = sorted(SG.edges())
        if world["mode"] == "safe_paths":
            expected = [ref.safe_path_ref(succ, pred, e) for e in items]
        else:
            expected = [ref.safe_sequence_ref(succ, SG.source, SG.sink, it) for it in items]
        sc = world["sched"]
        S = sched.Scheduler(sc["seed"], policy=sc["policy"], switch_p=sc["switch_p"], pct_changes=sc["pct_changes"],
                            decisions=sc.get("decisions"), opcode=sc.get("opcode", False), max_steps=400000,
                            pct_horizon=(25 if world["mode"] == "safe_paths" else 90) * max(1, len(items)) * (6 if sc.get("opcode") else 1))
        got = None
        pools = {}
        # capture the per-worker pools when safe_sequences returns
        import sys as _sys

        def prof(frame, event, arg):
            if event == "return" and frame.f_code.co_name == "safe_sequences" and frame.f_code.co_filename.endswith("safetypathcovers.py"):
                loc = frame.f_locals
                for nm in ("adj_dict", "adj_dict_rev", "adj_dict_pool", "adj_dict_rev_pool"):
                    if nm in loc:
                        pools[nm] = copy.deepcopy(loc[nm])
        try:
            with sched.scheduled(S):
                _sys.setprofile(prof)
                try:
                    if world["mode"] == "safe_paths":
                        got = spc.safe_paths(SG, items, no_duplicates=world["no_duplicates"], threads=world["threads"])
                    else:
                        got = spc.safe_sequences(SG, items, no_duplicates=world["no_duplicates"], threads=world["threads"])
                finally:
                    _sys.setprofile(None)
        except sched.Deadlock as e:
            V("deadlock", {"msg": str(e)})
        except sched.Livelock as e:
            V("livelock", {"msg": str(e)})
        except Exception as e:
            V("exception", {"exc": type(e).__name__, "msg": str(e)[:200]})
        if got is not None:
            norm = lambda seq: [tuple(e) for e in seq]
            if world["no_duplicates"]:
                a = sorted(set(tuple(norm(s)) for s in got))
                b = sorted(set(tuple(norm(s)) for s in expected))
                if a != b:
                    V("differs_from_sequential_reference", {"got": a[:3], "expected": b[:3]})
            else:
                if len(got) != len(expected):
                    V("differs_from_sequential_reference", {"len_got": len(got), "len_expected": len(expected)})
                else:
                    for i, (x, y) in enumerate(zip(got, expected)):
                        if norm(x) != norm(y):
                            V("differs_from_sequential_reference", {"position": i, "item": items[i], "got": norm(x), "expected": norm(y)})
                            break
            if sorted(SG.edges()) != edges_before:
                V("graph_modified", {})
            if "adj_dict_pool" in pools:
                base = {k: sorted(v) for k, v in pools["adj_dict"].items()}
                baser = {k: sorted(v) for k, v in pools["adj_dict_rev"].items()}
                for p in pools["adj_dict_pool"]:
                    if {k: sorted(v) for k, v in p.items()} != base:
                        V("pool_not_restored", {"pool": "adj_dict_pool"})
                        break
                for p in pools["adj_dict_rev_pool"]:
                    if {k: sorted(v) for k, v in p.items()} != baser:
                        V("pool_not_restored", {"pool": "adj_dict_rev_pool"})
                        break
            # monitored: exact safety on the tiny DAG by enumeration
            if not world["no_duplicates"] and not vs:
                g2 = {"nodes": list(SG.nodes()), "edges": [[u, v, 1] for u, v in SG.edges()]}
                paths = ref.st_paths(g2, limit=3000)
                pe = [list(zip(p[:-1], p[1:])) for p in paths]
                for it, seq in zip(items, got):
                    mid = [it] if isinstance(it, tuple) else it
                    seq = [tuple(e) for e in seq]
                    for route in pe:
                        rs = set(route)
                        if all(e in rs for e in mid) and not ref.contains_subsequence(route, seq):
                            V("unsafe_sequence", {"item": it, "sequence": seq, "counterexample_path": route})
                            break
    seen, uniq = set(), []
    for v in vs:
        if v.key not in seen:
            seen.add(v.key)
            uniq.append(dict(v))
    nthreads = len(S.workers)
    return {"violations": uniq, "digest": digest([S.switches, got]), "sig": S.interleaving_digest(),
            "nontrivial": nthreads >= 2 and len(S.switches) > nthreads,
            "fired": {}, "probes": {"context_switches": len(S.switches), "lock_operations": S.lock_ops,
                                    "opcode_granularity": 1 if world["sched"].get("opcode") else 0},
            "sim_s": 0.0, "invocations": 0,
            "counters": {"mode:" + world["mode"]: 1, "threads:%d" % world["threads"]: 1, "policy:" + world["sched"]["policy"]: 1,
                         "sched_steps": S.total_steps, "items": len(items)},
            "summary": {"steps": S.total_steps, "switches": len(S.switches), "threads": nthreads, "n_items": len(items)},
            "schedule": S.switches[:2000]}


def _execute_flow_safe(spec):
    """Monitored part: flow-decomposition safe paths.  A path e1..ek is in every flow decomposition iff its excess flow
    f(e1) - sum over inner nodes v_i of (outflow(v_i) - f(e_{i+1})) is positive (the units entering through e1 that the
    adversary cannot divert); recomputed independently from the caller's graph."""
    world = spec["world"]
    from flowpaths.utils import safetyflowdecomp as sfd
    sim = W.SimWorld(world["seed"], {})
    vs = []
    counters = {"mode:flow_safe_monitor": 1}
    g = world["graph"]
    flow = {(u, v): f for u, v, f in g["edges"]}
    out = {}
    for (u, v), f in flow.items():
        out[u] = out.get(u, 0) + f
    with W.active(sim):
        G = gen.to_nx(g, "flow")
        try:
            paths = sfd.compute_flow_decomp_safe_paths(G, "flow", no_duplicates=world["no_duplicates"])
        except Exception as e:
            vs.append(Violation(ID, "C06.exception", "flow_safe", {"exc": type(e).__name__, "msg": str(e)[:200]}))
            paths = []
    counters["flow_safe:paths"] = len(paths)
    rounds = [(paths, flow, out)]
    if g.get("routes") and world["seed"] % 2 == 0:
        # history: the caller updates the flow values in place (another superposition of the same routes) and asks again
        r2 = random.Random(world["seed"] + 1)
        w2 = [r2.randint(1, 9) for _ in g["routes"]]
        flow2 = {e: 0 for e in flow}
        for r, wgt in zip(g["routes"], w2):
            for e in zip(r[:-1], r[1:]):
                flow2[e] += wgt
        out2 = {}
        for (u, v), f in flow2.items():
            out2[u] = out2.get(u, 0) + f
        if all(f > 0 for f in flow2.values()):
            with W.active(sim):
                for (u, v), f in flow2.items():
                    G[u][v]["flow"] = f
                try:
                    paths2 = sfd.compute_flow_decomp_safe_paths(G, "flow", no_duplicates=world["no_duplicates"])
                    rounds.append((paths2, flow2, out2))
                    counters["flow_safe:second_call_after_update"] = 1
                except Exception as e:
                    vs.append(Violation(ID, "C06.exception", "flow_safe", {"exc": type(e).__name__, "msg": str(e)[:200], "call": 2}))
    nonmax = 0
    for paths, flow, out in rounds:
      for p in paths:
          es = [tuple(e) for e in p]
          if any(e not in flow for e in es) or any(a[1] != b[0] for a, b in zip(es[:-1], es[1:])):
              vs.append(Violation(ID, "C06.flow_safe_not_a_path", "flow_safe", {"path": es}))
              break
          ex = flow[es[0]]
          for a, b in zip(es[:-1], es[1:]):
              ex -= out[a[1]] - flow[b]
          if ex <= 1e-12:
              vs.append(Violation(ID, "C06.unsafe_flow_path", "flow_safe", {"path": es, "excess_flow": ex, "call": 1 if flow is rounds[0][1] else 2}))
              break
          # maximality (not part of the property; counted only)
          last = es[-1][1]
          for (u, v), f in flow.items():
              if u == last and ex - (out[last] - f) > 1e-12:
                  nonmax += 1
                  break
    counters["flow_safe:extendable_to_the_right"] = nonmax
    seen, uniq = set(), []
    for v in vs:
        if v.key not in seen:
            seen.add(v.key)
            uniq.append(dict(v))
    return {"violations": uniq, "digest": digest([paths]), "sig": None, "nontrivial": False, "fired": {}, "probes": {},
            "sim_s": 0.0, "invocations": 0, "counters": counters, "summary": {"safe_paths": len(paths)}}


def _execute_cyclic(spec):
    """Monitored part on cyclic graphs (no schedule in it; input-sampled)."""
    world = spec["world"]
    import flowpaths as fp
    from flowpaths.utils import safetypathcoverscycles as spcc
    rng = random.Random(world["seed"])
    sim = W.SimWorld(world["seed"], {})
    vs = []
    counters = {"mode:cyclic_monitor": 1}

    def V(clause, detail):
        vs.append(Violation(ID, "C06." + clause, "cyclic", detail))
    with W.active(sim):
        G = gen.to_nx(world["graph"], "flow")
        # additional start / end nodes (possibly inside an SCC, possibly with other in-/out-arcs): the global source /
        # sink are then adjacent to inner nodes as well
        rng2 = random.Random(H(world["seed"], "c06st"))
        st_kw = {}
        if rng2.random() < 0.4:
            st_kw["additional_starts"] = [rng2.choice(world["graph"]["nodes"])]
            if rng2.random() < 0.7:
                st_kw["additional_ends"] = [rng2.choice(world["graph"]["nodes"])]
            counters["cyclic:additional_starts_ends"] = 1
        try:
            SG = fp.stDiGraph(G, **st_kw)
        except ValueError:
            return {"violations": [], "digest": "x", "sig": None, "nontrivial": False, "counters": {"cyclic:no_source_or_sink": 1}}
        succ = {u: list(SG.successors(u)) for u in SG.nodes()}
        base_edges = [(u, v) for u, v in SG.edges() if u != SG.source and v != SG.sink]
        X = set(e for e in base_edges if rng.random() < world["xfrac"]) or set(base_edges[:1])
        try:
            seqs = spcc.maximal_safe_sequences_via_dominators(SG, X)
        except Exception as e:
            V("exception", {"fn": "maximal_safe_sequences_via_dominators", "exc": type(e).__name__, "msg": str(e)[:200]})
            seqs = []
        counters["cyclic:sequences"] = len(seqs)
        for s in seqs:
            s = [tuple(e) for e in s]
            xs = [e for e in s if e in X]
            # safe iff for some trusted edge x of it every source-to-sink walk through x contains it
            ok = any(not ref.exists_walk(succ, SG.source, SG.sink, [], must_use=[x], must_fail=s) for x in xs)
            if not ok:
                V("unsafe_sequence", {"sequence": s, "X": sorted(X)})
                break
        # walks_to_fix / edges_set_to_zero of a real walk model
        try:
            ign = [e for e in base_edges if rng.random() < 0.25]
            if len(ign) == len(base_edges):
                ign = ign[1:]
            model = fp.kPathCoverCycles(G, k=world["k"], elements_to_ignore=ign, **st_kw)
        except Exception as e:
            model = None
            counters["cyclic:model_exc:" + type(e).__name__] = 1
        if model is not None:
            wtf = [[tuple(e) for e in s] for s in getattr(model, "walks_to_fix", [])]
            counters["cyclic:walks_to_fix"] = len(wtf)
            msucc = {u: list(model.G.successors(u)) for u in model.G.nodes()}
            for i in range(len(wtf)):
                for j in range(i + 1, len(wtf)):
                    if ref.exists_walk(msucc, model.G.source, model.G.sink, [wtf[i], wtf[j]]):
                        V("compatible_sequences_in_different_slots", {"a": wtf[i], "b": wtf[j]})
                        break
            zero = getattr(model, "edges_set_to_zero", {})
            counters["cyclic:edges_set_to_zero"] = len(zero)
            for (u, v, i) in zero:
                if i < len(wtf) and ref.exists_walk(msucc, model.G.source, model.G.sink, [wtf[i]], must_use=[(u, v)]):
                    V("forbidden_edge_on_route_with_sequence", {"edge": [u, v], "slot": i, "sequence": wtf[i]})
                    break
    seen, uniq = set(), []
    for v in vs:
        if v.key not in seen:
            seen.add(v.key)
            uniq.append(dict(v))
    return {"violations": uniq, "digest": digest([seqs]), "sig": None, "nontrivial": False, "fired": {}, "probes": {},
            "sim_s": 0.0, "invocations": 0, "counters": counters, "summary": {"sequences": len(seqs)}}


def sample_view(spec, outcome):
    w = spec["world"]
    return {"mode": w["mode"], "edges": w["graph"]["edges"], "items": w.get("items"), "threads": w.get("threads"),
            "sched": w.get("sched"), "summary": outcome.get("summary"), "first_switches": (outcome.get("schedule") or [])[:40]}


def shrink(spec):
    w = spec["world"]
    if w["mode"] in ("cyclic_monitor", "flow_safe_monitor"):
        return
    if len(w["items"]) > 1:
        for i in range(len(w["items"])):
            c = copy.deepcopy(spec); del c["world"]["items"][i]; yield c
    if w["threads"] > 2:
        c = copy.deepcopy(spec); c["world"]["threads"] = 2; yield c
    if w["sched"]["policy"] != "random":
        c = copy.deepcopy(spec); c["world"]["sched"]["policy"] = "random"; yield c
    if w["sched"].get("opcode"):
        c = copy.deepcopy(spec); c["world"]["sched"]["opcode"] = False; yield c
