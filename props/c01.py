"""C01 - returned routes are real source-to-sink routes of the caller's graph."""
import random

from props import modelruns as mr
from sim import models
from sim import world as W
from sim.core import H, digest

ID = "C01"
LEVEL = "exploration"
BATCH = 6
QUICK_WORLDS = 384
THOROUGH_BUDGET_S = 900
RUN_TIMEOUT = 120
CLASSES = mr.ALL_CLASSES
ORACLES = [mr.oracle_c01]
WANT_CONSTRAINTS = 0.3
RULE = ("world = (model class, tiny graph, swarm configuration) from the seed; each world is solved through the simulated solver "
        "channel under reply policies canonical / alt / alt+noise (seeded alternative optimum, float noise within tolerance) and, "
        "for Min* searches, with a status fault on a seeded invocation.  distinct = (class, node/edge mode, option signature, "
        "instance digest, reply policy, faults); non-trivial = the model reported solved after at least one solver invocation and "
        "the delivered reply differed from HiGHS's canonical one (alternative optimum, noise) or a fault fired.")
COMPONENTS = {"real": ["flowpaths models, SolverWrapper", "HiGHS (threads=1), incl. the re-solve producing alternative optima"],
              "stub": ["float noise on delivered values", "status faults", "virtual clock"], "not_run": ["gurobi backend"]}
ASSUMPTIONS = ["alternative optima are vertices HiGHS itself returns for the model with the objective fixed at z*",
               "noise stays within the 1e-9 tolerances the library configures"]
TAG = "c01"
# witness of the listed known finding C01.not_exactly_k (one-node routes through an isolated node dropped as "empty")
import json as _json
PINNED = [_json.loads('{"sim": {"faults": [], "latency": "instant", "reply": "canonical", "reply_seed": 566380545}, "world": {"args": {"k": 3, "optimization_options": {}, "solver_options": {}, "weight_type": "float"}, "class": "kLeastAbsErrors", "graph": {"edges": [["A", "g", 0.9400000000000004], ["s", "g", 4.25]], "isolated": "iso", "kind": "dag", "nodes": ["A", "s", "g", "iso"], "routes": [["A", "g"], ["s", "g"], ["A", "g"]], "weights": [1.57, 6.25, 1.37]}}}')]


def gen_world(seed, tier):
    return mr.gen_world(seed, CLASSES, want_constraints=WANT_CONSTRAINTS, tag=TAG)


def plans(world, info, seed, tier):
    rng = random.Random(H(seed, TAG + "plans"))
    specs = []
    pols = ["canonical", "alt", "alt+noise"] if tier == "quick" else ["canonical", "alt", "alt", "alt+noise", "alt+noise", "noise"]
    for pol in pols:
        sim = {"latency": "instant", "reply": pol, "reply_seed": rng.randrange(1 << 30), "faults": []}
        if world["class"] in models.MIN_SEARCH_CLASSES and rng.random() < 0.3:
            sim["faults"] = [{"at": rng.randrange(0, 3), "kind": rng.choice(["interrupt", "time_limit_with_incumbent", "unknown", "time_limit_no_incumbent"])}]
        if pol != "canonical" and rng.random() < 0.3:
            sim["resolve"] = 1          # solve() a second time on the same object, then read the solution
        specs.append({"world": world, "sim": sim})
    # given-weights variant of the DAG k-models: one layer per given weight, of which at most k may be used
    g = world["graph"]
    if world["class"] in ("kFlowDecomp", "kMinPathError", "kLeastAbsErrors") and g.get("weights") and not mr._node_mode(world) \
            and "solution_weights_superset" not in world["args"]:
        import copy
        w2 = copy.deepcopy(world)
        ws = list(g["weights"]) + ([rng.randint(1, 5)] if rng.random() < 0.5 else [])
        w2["args"]["solution_weights_superset"] = ws
        w2["args"]["k"] = max(1, len(g["weights"]) - rng.choice([0, 1, 1]))
        for k_ in ("optimize_with_safe_paths", "optimize_with_safe_sequences", "optimize_with_safe_zero_edges", "optimize_with_flow_safe_paths"):
            w2["args"].get("optimization_options", {}).pop(k_, None)
        specs.append({"world": w2, "sim": {"latency": "instant", "reply": rng.choice(["canonical", "alt"]), "reply_seed": rng.randrange(1 << 30), "faults": []}})
    if not mr._node_mode(world) and rng.random() < 0.35:
        # the same world after the caller used the same graph object with other flow values (x3, still conserving; or x0.5)
        specs.append({"world": world, "sim": {"latency": "instant", "reply": "canonical", "reply_seed": rng.randrange(1 << 30), "faults": [],
                                              "inplace_prelude": rng.choice([3, 3, 2, 0.5])}})
    w3 = mr.greedy_variant(world, rng)
    if w3 is not None:
        specs.append({"world": w3, "sim": {"latency": "instant", "reply": rng.choice(["canonical", "alt"]), "reply_seed": rng.randrange(1 << 30), "faults": []}})
    return specs


def execute(spec, oracles=None, pid=None):
    world = spec["world"]
    try:
        out, w, model = mr.run(world, spec["sim"], seed=H(spec["sim"].get("reply_seed", 0), "run"))
    except W.Discard as e:
        return {"discard": str(e)}
    vs = []
    for o in (oracles or ORACLES):
        vs += o(world, out) if pid is None else o(world, out, pid)
    seen, uniq = set(), []
    for v in vs:
        if v.key not in seen:
            seen.add(v.key)
            uniq.append(dict(v))
    oo = world["args"].get("optimization_options") or {}
    varied = out["probes"].get("alt_optimum_differs", 0) + out["probes"].get("noise_applied", 0) + sum(out["fired"].values())
    sig = digest([world["class"], mr._node_mode(world), sorted((k, v) for k, v in oo.items()),
                  world["graph"]["edges"], sorted(k for k in world["args"]), spec["sim"]["reply"], spec["sim"]["faults"]])
    status = "solved" if out["solved"] else ("construct_exc" if out["construct_exc"] else ("solve_exc" if out["solve_exc"] else "unsolved"))
    counters = {"class:" + world["class"]: 1, "status:" + status: 1, "reply:" + spec["sim"]["reply"]: 1}
    if out["construct_exc"]:
        counters["construct_exc:%s@%s" % (out["construct_exc"], out.get("construct_frame"))] = 1
    if out["solve_exc"]:
        counters["solve_exc:%s@%s" % (out["solve_exc"], out.get("solve_frame"))] = 1
    if mr._node_mode(world):
        counters["node_mode"] = 1
    return {"violations": uniq, "digest": out["digest"], "sig": sig,
            "nontrivial": bool(out["solved"] and out["n_inv"] > 0 and varied > 0),
            "fired": out["fired"], "probes": out["probes"], "sim_s": out["sim_s"], "invocations": out["n_inv"],
            "counters": counters,
            "summary": {"status": status, "solution": out.get("solution"), "objective": out.get("objective")}}


def sample_view(spec, outcome):
    return {"class": spec["world"]["class"], "graph": {k: spec["world"]["graph"].get(k) for k in ("nodes", "edges", "node_weights")},
            "args": spec["world"]["args"], "sim": spec["sim"], "summary": outcome.get("summary")}


shrink = mr.shrink
