"""Evaluate seeded changes: apply each patch to a scratch worktree, confirm the demonstration
fails with it and passes without it, run the matching check(s) against the worktree.
Usage: seeded_eval.py <dir with P/X/patch.diff,demo.py> [P/X ...] [--tier quick] [--checks C01,C02]"""
import json, os, shutil, subprocess, sys, time

V = os.path.dirname(os.path.dirname(os.path.abspath(__file__)))
base = sys.argv[1]
args = [a for a in sys.argv[2:] if not a.startswith("--")]
tier = "quick"
extra_checks = None
for a in sys.argv[2:]:
    if a.startswith("--tier="):
        tier = a.split("=")[1]
    if a.startswith("--checks="):
        extra_checks = a.split("=")[1].split(",")
items = args or sorted(p + "/" + x for p in os.listdir(base) if os.path.isdir(os.path.join(base, p)) for x in os.listdir(os.path.join(base, p)) if os.path.exists(os.path.join(base, p, x, "patch.diff")))
for it in items:
    if "/" in it:
        pid, x = it.split("/")
        d = os.path.join(base, pid, x)
    else:
        # flat layout of /verif/seeded: <round>-<P>-<X>
        d = os.path.join(base, it)
        pid, x = None, it
    meta = {}
    if os.path.exists(os.path.join(d, "meta.json")):
        meta = json.load(open(os.path.join(d, "meta.json")))
    pid = pid or meta.get("breaks_property")
    wt = "/tmp/wt/eval_%s_%s" % (pid, x)
    subprocess.run(["git", "-C", "/repo", "worktree", "remove", "--force", wt], capture_output=True)
    subprocess.run(["git", "-C", "/repo", "worktree", "add", "--detach", wt, meta.get("base_commit", "HEAD")], capture_output=True, check=True)
    try:
        shutil.copy(os.path.join(d, "demo.py"), os.path.join(wt, "_demo.py"))
        clean = subprocess.run(["/venv/bin/python", "-W", "ignore", "_demo.py"], cwd=wt, capture_output=True, text=True, timeout=900)
        ap = subprocess.run(["git", "-C", wt, "apply", os.path.join(d, "patch.diff")], capture_output=True, text=True)
        if ap.returncode != 0:
            print("%-8s APPLY-FAILED %s" % (it, ap.stderr[:200]))
            continue
        mut = subprocess.run(["/venv/bin/python", "-W", "ignore", "_demo.py"], cwd=wt, capture_output=True, text=True, timeout=900)
        res = []
        for chk in (extra_checks or meta.get("checks") or [pid]):
            out = "/tmp/mut/out_%s_%s_%s" % (pid, x, chk)
            env = dict(os.environ, VERIF_REPO=wt, VERIF_OUT=out)
            t = time.time()
            cp = subprocess.run([os.path.join(V, "check"), chk, "--tier", tier], env=env, capture_output=True, text=True, cwd=V)
            viol = [l for l in cp.stdout.splitlines() if l.startswith("VIOLATION")]
            clauses = sorted({os.path.basename(l.split("replay=")[1]).rsplit("-", 2)[0] for l in viol})
            res.append("%s:%s%s(%.0fs)" % (chk, "DETECTED " if cp.returncode == 1 else "missed exit=%d " % cp.returncode, ",".join(clauses), time.time() - t))
            shutil.rmtree(out, ignore_errors=True)
        print("%-8s demo clean=%d mutated=%d | %s" % (it, clean.returncode, mut.returncode, " ".join(res)), flush=True)
    finally:
        subprocess.run(["git", "-C", "/repo", "worktree", "remove", "--force", wt], capture_output=True)
