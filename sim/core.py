"""Seeds, PRNG sub-streams, history recording, violations.

One integer decides everything: every run derives all of its choices from
``H(master, property, index)``; inside a run, purpose-keyed sub-streams are derived
from that integer so that adding a draw in one place does not shift the others.
Logging never draws from a PRNG and never reads a real clock.
"""
import hashlib
import json
import random


def H(*parts) -> int:
    """Stable 64-bit hash of the parts (independent of PYTHONHASHSEED)."""
    h = hashlib.sha256()
    for p in parts:
        h.update(repr(p).encode())
        h.update(b"\x00")
    return int.from_bytes(h.digest()[:8], "big")


class Streams:
    """Purpose-keyed PRNG sub-streams derived from one run seed."""

    def __init__(self, seed: int):
        self.seed = seed
        self._streams = {}

    def __call__(self, purpose: str) -> random.Random:
        r = self._streams.get(purpose)
        if r is None:
            r = random.Random(H(self.seed, purpose))
            self._streams[purpose] = r
        return r


def canon(obj):
    """Canonical JSON-able form: sets sorted, tuples to lists, floats rounded to 9 sig."""
    if isinstance(obj, dict):
        return {str(k): canon(v) for k, v in sorted(obj.items(), key=lambda kv: str(kv[0]))}
    if isinstance(obj, (set, frozenset)):
        return sorted((canon(x) for x in obj), key=lambda x: json.dumps(x, sort_keys=True))
    if isinstance(obj, (list, tuple)):
        return [canon(x) for x in obj]
    if isinstance(obj, bool) or obj is None or isinstance(obj, (int, str)):
        return obj
    if isinstance(obj, float):
        if obj != obj:
            return "nan"
        if obj in (float("inf"), float("-inf")):
            return "inf" if obj > 0 else "-inf"
        return float(f"{obj:.9g}")
    try:
        import numpy as np
        if isinstance(obj, np.integer):
            return int(obj)
        if isinstance(obj, np.floating):
            return canon(float(obj))
    except Exception:
        pass
    return repr(type(obj).__name__)


def digest(obj) -> str:
    return hashlib.sha256(json.dumps(canon(obj), sort_keys=True).encode()).hexdigest()[:32]


class History:
    """Totally ordered record of one simulated run."""

    def __init__(self):
        self.events = []

    def add(self, kind, **payload):
        self.events.append((len(self.events), kind, canon(payload)))

    def digest(self):
        return digest(self.events)

    def of_kind(self, kind):
        return [e for e in self.events if e[1] == kind]


class Violation(dict):
    def __init__(self, prop, clause, fingerprint, detail=None):
        super().__init__(property=prop, clause=clause, fingerprint=fingerprint, detail=canon(detail))

    @property
    def key(self):
        return (self["property"], self["clause"], self["fingerprint"])
