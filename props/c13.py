"""C13 - solved means proven optimal; inconclusive solver runs never yield an answer.

fault_enumeration: for every sampled world, the fault-free run is the reference model;
then one fault of kind K at solver invocation j, for every j (first and last included)
and (thorough) every K; plus multi-fault, clock-jump and budget-exhaustion plans.
"""
import copy
import random

from sim import gen, simrun, models
from sim import world as W
from sim.core import H, Violation, digest

ID = "C13"
LEVEL = "fault_enumeration"
BATCH = 3
QUICK_WORLDS = 128
THOROUGH_BUDGET_S = 900
RUN_TIMEOUT = 120
SHRINK_BUDGET_S = 90
RULE = ("world = (search class, tiny instance, options, time-limit settings) drawn from the seed; reference = fault-free "
        "run of the same world; each run injects a fault plan (one fault kind at one solver-invocation index, for every index "
        "of the reference run, or a multi-fault / clock-jump / slow-latency plan) and is followed by a fault-free recovery run "
        "in the same process.  distinct = (class, option signature, #invocations, plan); non-trivial = at least one solver "
        "invocation happened and at least one fault, alarm or budget exhaustion actually fired.")
COMPONENTS = {
    "real": ["flowpaths models and SolverWrapper (all lines)", "HiGHS MILP solve (threads=1)", "networkx", "time_limit=0 / mip_max_nodes=0 native limit statuses"],
    "stub": ["delivered status for interrupt/unknown/iteration/memory/solve-error/notset/unbounded-or-infeasible/objective-bound",
             "virtual clock and per-invocation latency", "virtual SIGALRM", "exception raised instead of solving"],
    "not_run": ["gurobi backend"],
}
ASSUMPTIONS = ["HiGHS is truthful about kOptimal/kInfeasible", "HiGHS with one thread and fixed seed is deterministic",
               "line-level: a fault is a property of one solver invocation, not of a point inside it"]

KINDS = list(W.ALL_FAULT_KINDS)
SEARCH_CLASSES = ["MinFlowDecomp", "MinFlowDecompCycles", "MinPathCover", "MinPathCoverCycles", "MinGenSet",
                  "NumPathsOptimization", "MinErrorFlow", "kmodel", "MinSetCover"]
WEIGHTS = [30, 14, 10, 8, 14, 10, 8, 6, 6]


# --------------------------------------------------------------------------
# worlds
# --------------------------------------------------------------------------

def _solver_options(rng):
    so = {}
    r = rng.random()
    if r < 0.5:
        so["time_limit"] = rng.choice([5, 60, 100, 300, 3600])
        if rng.random() < 0.5:
            so["use_also_custom_timeout"] = True
    if rng.random() < 0.3:
        so["threads"] = rng.choice([1, 2, 4])
    return so


def gen_world(seed, tier):
    rng = random.Random(H(seed, "c13world"))
    kind = rng.choices(SEARCH_CLASSES, WEIGHTS)[0]
    so = _solver_options(rng)
    knobs = {}
    if kind == "MinFlowDecomp":
        g = gen.dag_bowtie(rng) if rng.random() < 0.7 else gen.dag_layered(rng, max_nodes=6, max_edges=8)
        oo = {"optimize_with_greedy": rng.random() < 0.2}
        if rng.random() < 0.3:
            oo["use_min_gen_set_lowerbound"] = True
            if rng.random() < 0.3:
                oo["use_min_gen_set_lowerbound_partition_constraints"] = True
        if rng.random() < 0.2:
            oo["optimize_with_guessed_weights"] = True
        if rng.random() < 0.15:
            oo["use_subgraph_scanning_lowerbound"] = True
            knobs = {"subgraph_lowerbound_size": rng.choice([2, 3]), "subgraph_lowerbound_shift": rng.choice([1, 2])}
        args = {"weight_type": "int", "optimization_options": oo, "solver_options": so}
        if rng.random() < 0.25:
            c = gen.subpath_constraints(rng, g) if g.get("routes") else []
            if c:
                args["subpath_constraints"] = c
        w = {"class": "MinFlowDecomp", "graph": g, "args": args}
    elif kind == "MinFlowDecompCycles":
        g = gen.digraph_cyclic(rng, max_nodes=4, max_edges=5, max_routes=2, wmax=4)
        oo = {}
        if rng.random() < 0.4:
            oo["use_min_gen_set_lowerbound"] = True
        if rng.random() < 0.3:
            oo["optimize_with_guessed_weights"] = True
        args = {"weight_type": "int", "optimization_options": oo, "solver_options": so}
        w = {"class": "MinFlowDecompCycles", "graph": g, "args": args}
    elif kind == "MinPathCover":
        g = gen.dag_layered(rng, max_nodes=6, max_edges=8)
        args = {"optimization_options": {}, "solver_options": so}
        c = gen.subpath_constraints(rng, g)
        if c and rng.random() < 0.7:
            args["subpath_constraints"] = c
        w = {"class": "MinPathCover", "graph": _unweighted(g), "args": args}
    elif kind == "MinPathCoverCycles":
        g = gen.digraph_cyclic(rng, max_nodes=4, max_edges=6, max_routes=2)
        args = {"optimization_options": {}, "solver_options": so}
        c = gen.subpath_constraints(rng, g)
        if c and rng.random() < 0.6:
            args["subset_constraints"] = c
        w = {"class": "MinPathCoverCycles", "graph": _unweighted(g), "args": args}
    elif kind == "MinGenSet":
        base = [rng.randint(1, 9) for _ in range(rng.randint(2, 4))]
        nums = []
        for _ in range(rng.randint(3, 6)):
            sub = [b for b in base if rng.random() < 0.5] or [base[0]]
            s = sum(sub)
            if s not in nums:
                nums.append(s)
        if len(nums) < 3:
            nums = nums + [x for x in base if x not in nums]
        args = {"numbers": nums, "total": sum(base), "weight_type": "int", "lowerbound": 1,
                "solver_options": so}
        if rng.random() < 0.3:
            args["remove_complement_values"] = False
        w = {"class": "MinGenSet", "graph": None, "args": args}
    elif kind == "NumPathsOptimization":
        g = gen.perturb(rng, gen.dag_layered(rng, max_nodes=5, max_edges=7, max_routes=3))
        mt = rng.choice(["kMinPathError", "kLeastAbsErrors"])
        args = {"model_type": mt, "min_num_paths": 1, "max_num_paths": rng.choice([3, 4]),
                "weight_type": rng.choice(["int", "float"]), "solver_options": so}
        r = rng.random()
        if r < 0.4:
            args["stop_on_first_feasible"] = True
        elif r < 0.7:
            args["stop_on_delta_abs"] = rng.choice([0, 1, 2])
        else:
            args["stop_on_delta_rel"] = rng.choice([0.1, 0.5])
        if "time_limit" in so:
            args["time_limit"] = so["time_limit"]
        w = {"class": "NumPathsOptimization", "graph": g, "args": args}
    elif kind == "MinSetCover":
        uni = list(range(rng.randint(2, 6)))
        subs = [[u for u in uni if rng.random() < 0.5] or [uni[0]] for _ in range(rng.randint(2, 5))]
        if rng.random() < 0.85:
            subs.append([u for u in uni if not any(u in s_ for s_ in subs)] or [uni[-1]])      # coverable
        args = {"universe": uni, "subsets": subs, "solver_options": so}
        if rng.random() < 0.6:
            args["subset_weights"] = [rng.choice([1, 2, 3, 5]) for _ in subs]
        w = {"class": "MinSetCover", "graph": None, "args": args}
    elif kind == "MinErrorFlow":
        g0 = gen.dag_layered(rng, max_nodes=5, max_edges=7) if rng.random() < 0.6 else gen.digraph_cyclic(rng, max_nodes=4, max_edges=5)
        g = gen.perturb(rng, g0)
        args = {"weight_type": rng.choice(["int", "float"]), "solver_options": so}
        if rng.random() < 0.8:
            args["few_flow_values_epsilon"] = rng.choice([0.1, 0.5, 1.0])
        w = {"class": "MinErrorFlow", "graph": g, "args": args}
    else:
        cname = rng.choice(["kFlowDecomp", "kMinPathError", "kLeastAbsErrors", "kPathCover",
                            "kFlowDecompCycles", "kPathCoverCycles", "kMinPathErrorCycles", "kLeastAbsErrorsCycles"])
        if cname in models.DAG_CLASSES:
            g = gen.dag_layered(rng, max_nodes=5, max_edges=7, max_routes=3)
        else:
            g = gen.digraph_cyclic(rng, max_nodes=4, max_edges=5, max_routes=2, wmax=4)
        k = max(1, len(g["routes"]) + rng.choice([-1, 0, 0, 1]))
        args = {"k": k, "solver_options": so}
        if cname in ("kFlowDecomp", "kFlowDecompCycles"):
            args["weight_type"] = "int"
            args["optimization_options"] = {"optimize_with_greedy": False} if cname == "kFlowDecomp" else {}
        elif cname in models.COVER_CLASSES:
            g = _unweighted(g)
        else:
            g = gen.perturb(rng, g)
            args["weight_type"] = rng.choice(["int", "float"])
        w = {"class": cname, "graph": g, "args": args}
    w["knobs"] = knobs
    return w


def _unweighted(g):
    out = dict(g)
    out["edges"] = [[u, v, 1] for u, v, _ in g["edges"]]
    return out


# --------------------------------------------------------------------------
# reference run (probe) and plans
# --------------------------------------------------------------------------

REF_SIM = {"latency": "instant", "reply": "canonical", "faults": []}


def _apply_knobs(world):
    import flowpaths as fp
    for k, v in (world.get("knobs") or {}).items():
        setattr(fp.MinFlowDecomp, k, v)


def _summary(out):
    post = out.get("post") or {}
    return {"solved": bool(post.get("solved")), "objective": post.get("objective"),
            "construct_exc": out.get("construct_exc"), "solve_exc": out.get("solve_exc"),
            "n": len(out["invocations"]),
            "n_main": sum(1 for i in out["invocations"] if not i["aux"])}


def probe(world):
    _apply_knobs(world)
    try:
        out, w, _ = simrun.run_world(world, REF_SIM, seed=0, step_cap=200)
    except W.Discard as e:
        return {"discard": str(e)}
    s = _summary(out)
    s["system_exit"] = out["system_exit"]
    return s


def plans(world, info, seed, tier):
    rng = random.Random(H(seed, "c13plans"))
    if info.get("construct_exc"):
        return []
    n = info["n"]
    specs = []

    def mk(faults, latency="instant", reply="canonical", tag=""):
        return {"world": world, "ref": {"n": n}, "decoy": rng.random() < 0.2,
                "sim": {"latency": latency, "reply": reply, "reply_seed": rng.randrange(1 << 30),
                        "faults": faults, "tick": rng.choice([1e-6, 1e-4, 1e-2])}, "tag": tag}

    # a fault-free run with a different admissible reply and a realistic clock
    specs.append(mk([], latency="realistic", reply=rng.choice(["alt", "alt+noise"]), tag="faultfree"))
    boring = info["n_main"] < 2
    if n == 0:
        return specs
    if boring and rng.random() < 0.6:
        j = rng.randrange(n)
        specs.append(mk([_fault(rng, j, rng.choice(KINDS))], tag="single"))
        return specs
    per_j = len(KINDS) if tier == "thorough" else 6
    rot = rng.randrange(len(KINDS))
    for j in range(n):
        if tier == "thorough":
            kinds = KINDS
        else:
            kinds = [KINDS[(rot + j * per_j + t) % len(KINDS)] for t in range(per_j)]
        for kd in kinds:
            specs.append(mk([_fault(rng, j, kd)], tag="single"))
    # multi-fault plans, clustered around the transition infeasible -> feasible (the end)
    nm = 6 if tier == "thorough" else 2
    for _ in range(nm):
        cnt = rng.randint(2, 3)
        pos = sorted(set(max(0, n - 1 - rng.randint(0, 2)) if rng.random() < 0.6 else rng.randrange(n) for _ in range(cnt)))
        specs.append(mk([_fault(rng, j, rng.choice(KINDS)) for j in pos], tag="multi"))
    # a solve() that succeeded earlier on the same object, then one with a fault: what the getters say afterwards is
    # either the proven answer or nothing
    for _ in range(3 if tier == "quick" else 2 * n):
        sp = mk([_fault(rng, rng.randrange(n), rng.choice(KINDS))], reply=rng.choice(["canonical", "alt"]), tag="resolve")
        sp["solve_first"] = True
        specs.append(sp)
    # slow latency: the budget runs out at a seeded point
    for lat in (["realistic", "slow", "slow"] if tier == "thorough" else ["slow"]):
        specs.append(mk([], latency=lat, tag="latency"))
    return specs


def _fault(rng, j, kind):
    f = {"at": j, "kind": kind}
    if kind.startswith("clock_jump"):
        f["jump"] = 10 ** rng.randint(1, 6)
    if kind == "time_limit_with_incumbent":
        f["incumbent"] = rng.choice(["optimal", "feasible"])
    return f


# --------------------------------------------------------------------------
# execution and oracle
# --------------------------------------------------------------------------

def _close(a, b):
    if a is None or b is None:
        return a == b
    try:
        return abs(float(a) - float(b)) <= 1e-6 * max(1.0, abs(float(a)), abs(float(b)))
    except Exception:
        return a == b


def _same_answer(world, a, b):
    """Objective equality; MinErrorFlow with few_flow_values_epsilon reports the error of *a* solution within
    (1+eps) of the optimum, so two admissible answers may differ by that factor."""
    eps = world["args"].get("few_flow_values_epsilon") if world["class"] == "MinErrorFlow" else None
    if eps:
        try:
            a_, b_ = float(a), float(b)
            return a_ <= (1 + eps) * b_ + 1e-6 and b_ <= (1 + eps) * a_ + 1e-6
        except Exception:
            return a == b
    return _close(a, b)


def _conclusive_opt(inv):
    return inv["delivered"] == "kOptimal" and not inv.get("alarm")


def _inconclusive(inv):
    return inv["delivered"] not in W.CONCLUSIVE or bool(inv.get("alarm"))


def check_run(world, out, ref, faults_fired):
    """Oracle clauses 1-5, 7 of DESIGN.md C13 on one (possibly faulted) run."""
    cname = world["class"]
    vs = []
    fp_ = cname

    def V(clause, detail):
        vs.append(Violation(ID, "C13." + clause, fp_, detail))

    if out["system_exit"]:
        V("system_exit", {"where": out.get("where")})
        return vs
    if out["hang"]:
        V("hang", {"invocations": len(out["invocations"])})
        return vs
    pre = out.get("pre")
    post = out.get("post") or {}
    invs = out["invocations"]
    # 4 (before solve): getters must raise while the model is not solved
    if pre is not None and not pre.get("solved"):
        if "solution" in pre and pre["solution"] is not None:
            V("data_before_solve", {"getter": "get_solution"})
        if "objective" in pre and pre["objective"] is not None:
            V("data_before_solve", {"getter": "get_objective_value"})
    solved = bool(post.get("solved"))
    if not solved:
        if "solution" in post and post["solution"] is not None:
            V("data_when_unsolved", {"getter": "get_solution", "solve_exc": out.get("solve_exc")})
        if "objective" in post and post["objective"] is not None:
            V("data_when_unsolved", {"getter": "get_objective_value", "solve_exc": out.get("solve_exc")})
    main = [i for i in invs if not i["aux"]]
    if solved:
        # 1: the reply the answer rests on was a proven optimum.  For a minimum search the returned model is
        # the k-model with k == objective; if no main-loop invocation has that k, the answer came from the greedy
        # shortcut (no solver) or from the given-weights model (an auxiliary invocation, which then must be optimal)
        if cname in models.MIN_SEARCH_CLASSES and cname != "MinGenSet":
            mk = [i for i in main if i["k"] == post.get("objective")]
            if mk:
                if not _conclusive_opt(mk[-1]):
                    V("solved_without_optimal_proof", {"last": mk[-1]})
            else:
                gw = [i for i in invs if any(c.endswith("._solve_with_given_weights") for c in i["chain"])]
                if gw and not _conclusive_opt(gw[-1]) and not (world["args"].get("optimization_options") or {}).get("optimize_with_greedy", cname == "MinFlowDecomp"):
                    V("solved_without_optimal_proof", {"last": gw[-1], "route": "given_weights"})
        elif main and not _conclusive_opt(main[-1]):
            V("solved_without_optimal_proof", {"last": main[-1]})
        # 3: no inconclusive k was skipped on the way
        if cname in models.MIN_SEARCH_CLASSES and main:
            for i in main:
                if i["k"] is not None and post.get("objective") is not None and i["k"] >= post.get("objective"):
                    continue
                if _inconclusive(i):
                    V("skipped_inconclusive_k", {"skipped": i, "returned": post.get("objective")})
                    break
        # 2: never another answer than the fault-free one
        if cname != "NumPathsOptimization" and ref is not None and not ref.get("solve_exc"):
            if ref["solved"] and not _same_answer(world, post.get("objective"), ref["objective"]):
                V("wrong_answer", {"objective": post.get("objective"), "reference": ref["objective"]})
            elif not ref["solved"] and not ref.get("solve_exc"):
                V("wrong_answer", {"objective": post.get("objective"), "reference": "unsolved"})
        if "solution_exc" in post or "objective_exc" in post:
            V("solved_but_getters_raise", {"post": {k: post.get(k) for k in ("solution_exc", "objective_exc")}})
    # no fault fired: the run must equal the reference exactly
    if ref is not None and not faults_fired and not out.get("solve_exc") and not ref.get("solve_exc"):
        if solved != ref["solved"] or (solved and cname != "NumPathsOptimization" and not _same_answer(world, post.get("objective"), ref["objective"])):
            V("faultfree_differs", {"solved": solved, "objective": post.get("objective"), "reference": ref})
    # 7: timer hygiene
    if out.get("alarm_armed_after"):
        V("alarm_left_armed", {})
    return vs


def check_resolve(world, out, ref, faults_fired):
    """A second solve() on an object whose first solve() ran undisturbed.  The object may keep its proven answer or
    lose it; it may not report solved with another answer, and may not hand out data while reporting not solved."""
    cname = world["class"]
    vs = []

    def V(clause, detail):
        vs.append(Violation(ID, "C13." + clause, cname, dict(detail, plan="solve, then solve with a fault")))
    if out["system_exit"]:
        V("system_exit", {"where": out.get("where")})
        return vs
    if out["hang"]:
        V("hang", {"invocations": len(out["invocations"])})
        return vs
    post = out.get("post") or {}
    solved = bool(post.get("solved"))
    usable_ref = cname != "NumPathsOptimization" and ref is not None and not ref.get("solve_exc")
    if not solved:
        # several classes keep the solution of the first, undisturbed solve() in a cache that get_solution() serves
        # while is_solved() is already False again: that data is the proven answer.  Anything else is unproven data.
        if post.get("objective") is not None and usable_ref:
            if not (ref["solved"] and _same_answer(world, post.get("objective"), ref["objective"])):
                V("data_when_unsolved", {"getter": "get_objective_value", "objective": post.get("objective"),
                                         "reference": ref.get("objective"), "solve_exc": out.get("solve_exc")})
    elif usable_ref and post.get("objective") is not None:
        # (no objective: the getters raised - nothing was handed out)
        if ref["solved"] and not _same_answer(world, post.get("objective"), ref["objective"]):
            V("wrong_answer", {"objective": post.get("objective"), "reference": ref["objective"]})
        elif not ref["solved"]:
            V("wrong_answer", {"objective": post.get("objective"), "reference": "unsolved"})
    if out.get("alarm_armed_after"):
        V("alarm_left_armed", {})
    return vs


def execute(spec):
    world = spec["world"]
    _apply_knobs(world)
    seed = H(spec.get("sim", {}).get("reply_seed", 0), "c13run")
    cap = 10 * max(1, spec["ref"]["n"]) + 20
    try:
        ref_out, _, _ = simrun.run_world(world, REF_SIM, seed=0, step_cap=200)
        ref = _summary(ref_out)
        vs = []
        if ref_out["system_exit"]:
            vs.append(Violation(ID, "C13.system_exit", world["class"], {"where": ref_out.get("where"), "run": "reference"}))
        else:
            vs += check_run(world, ref_out, None, True)
        hooks = None
        if spec.get("decoy"):
            # the caller builds a second, independent instance before solving the first one (it is never solved)
            def _decoy(model, simw):
                try:
                    simw._decoy = models.build(world)
                except Exception:
                    pass
            hooks = {"after_construct": _decoy}
        if spec.get("retry", True):
            hooks = dict(hooks or {}, retry=True)
        if spec.get("solve_first"):
            hooks = dict(hooks or {}, solve_first=True)
            cap = 2 * cap
        out, w, _ = simrun.run_world(world, spec["sim"], seed=seed, step_cap=cap, hooks=hooks)
        fired = sum(out["fired"].values())
        limit = (world["args"].get("solver_options") or {}).get("time_limit", world["args"].get("time_limit"))
        if limit is not None and out["sim_s"] > float(limit):
            # more simulated time passed than the model's whole budget (e.g. a slow auxiliary solve that carries no
            # limit of its own): giving up is then the documented behaviour, not a difference from the reference
            fired += 1
            out["fired"] = dict(out["fired"], elapsed_beyond_time_limit=1)
        if spec.get("solve_first"):
            vs += check_resolve(world, out, ref if not ref_out["system_exit"] else None, fired > 0)
        else:
            vs += check_run(world, out, ref if not ref_out["system_exit"] else None, fired > 0)
        # 6: recovery - a fresh fault-free run in the same process reproduces the reference
        rec_out, _, _ = simrun.run_world(world, REF_SIM, seed=0, step_cap=200)
        rec = _summary(rec_out)
        if not ref_out["system_exit"] and (rec["solved"] != ref["solved"] or not _close(rec["objective"], ref["objective"]) or rec["n"] != ref["n"]):
            vs.append(Violation(ID, "C13.no_recovery", world["class"], {"recovered": rec, "reference": ref}))
    except W.Discard as e:
        return {"discard": str(e)}
    # de-duplicate
    seen = set()
    uniq = []
    for v in vs:
        if v.key not in seen:
            seen.add(v.key)
            uniq.append(dict(v))
    oo = world["args"].get("optimization_options") or {}
    sig = digest([world["class"], sorted(k for k, v in oo.items() if v), sorted(world["args"].get("solver_options", {})),
                  ref["n"], spec["sim"]["faults"], spec["sim"]["latency"], spec["sim"]["reply"]])
    # monitored (not a clause of the property): does a plain second solve() on the *same* object recover?
    retry = out.get("retry")
    retry_tag = None
    if (retry is not None and retry.get("solved") and world["class"] != "NumPathsOptimization" and not ref_out["system_exit"]
            and not ref.get("solve_exc") and retry.get("objective") is not None and not spec.get("solve_first")):
        # a later solve() on the same object, with no fault in it: whether it recovers is the library's choice, but a
        # claimed solution must be the proven one
        if not ref["solved"] or not _same_answer(world, retry.get("objective"), ref["objective"]):
            v_ = Violation(ID, "C13.wrong_answer", world["class"], {"after": "a faulted solve() followed by an undisturbed solve() on the same object",
                                                                    "objective": retry.get("objective"), "reference": ref.get("objective") if ref["solved"] else "unsolved"})
            if v_.key not in seen:
                seen.add(v_.key)
                uniq.append(dict(v_))
    if retry is not None and ref["solved"] and not (out.get("post") or {}).get("solved"):
        ok = bool(retry.get("solved")) and (world["class"] == "NumPathsOptimization" or _same_answer(world, retry.get("objective"), ref["objective"]))
        retry_tag = "retry_same_object:" + ("recovered" if ok else "not_recovered:" + world["class"])
    return {
        "violations": uniq,
        "digest": digest([ref_out["digest"], out["digest"], rec_out["digest"], _summary(out)]),
        "sig": sig,
        "nontrivial": len(out["invocations"]) > 0 and fired > 0,
        "fired": out["fired"], "probes": out["probes"],
        "sim_s": ref_out["sim_s"] + out["sim_s"] + rec_out["sim_s"],
        "invocations": len(ref_out["invocations"]) + len(out["invocations"]) + len(rec_out["invocations"]),
        "counters": {"class:" + world["class"]: 1, "plan:" + spec.get("tag", ""): 1,
                     "outcome:" + ("solved" if (out.get("post") or {}).get("solved") else ("exception" if out.get("solve_exc") else "unsolved")): 1,
                     "ref:" + ("solved" if ref["solved"] else "unsolved"): 1, **({retry_tag: 1} if retry_tag else {})},
        "summary": {"ref": ref, "run": _summary(out)},
    }


def sample_view(spec, outcome):
    return {"class": spec["world"]["class"], "graph_edges": (spec["world"].get("graph") or {}).get("edges"),
            "args": spec["world"]["args"], "sim": spec["sim"], "summary": outcome.get("summary")}


# --------------------------------------------------------------------------
# shrinking
# --------------------------------------------------------------------------

def shrink(spec):
    s = spec
    faults = s["sim"]["faults"]
    # drop faults
    if len(faults) > 1:
        for i in range(len(faults)):
            c = copy.deepcopy(s)
            del c["sim"]["faults"][i]
            yield c
    # simpler fault kinds
    for i, f in enumerate(faults):
        if f["kind"] not in ("interrupt",):
            c = copy.deepcopy(s)
            c["sim"]["faults"][i] = {"at": f["at"], "kind": "interrupt"}
            yield c
    if s["sim"]["reply"] != "canonical":
        c = copy.deepcopy(s); c["sim"]["reply"] = "canonical"; yield c
    if s["sim"]["latency"] != "instant":
        c = copy.deepcopy(s); c["sim"]["latency"] = "instant"; yield c
    # options to defaults one at a time
    args = s["world"]["args"]
    for key in ("solver_options", "optimization_options"):
        for k in list((args.get(key) or {}).keys()):
            c = copy.deepcopy(s)
            del c["world"]["args"][key][k]
            yield c
    for k in ("subpath_constraints", "subset_constraints", "few_flow_values_epsilon"):
        if k in args:
            c = copy.deepcopy(s)
            del c["world"]["args"][k]
            yield c
    # shrink the instance
    g = s["world"].get("graph")
    if g:
        for i in range(len(g["edges"])):
            if g["edges"][i][2] not in (1, None):
                c = copy.deepcopy(s)
                c["world"]["graph"]["edges"][i][2] = 1
                c["world"]["graph"]["routes"] = None
                yield c
    if s["world"]["class"] == "MinGenSet":
        nums = args["numbers"]
        for i in range(len(nums)):
            if len(nums) > 2:
                c = copy.deepcopy(s)
                del c["world"]["args"]["numbers"][i]
                yield c
