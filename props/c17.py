"""C17 - substrate queries (reachability, antichain, bottleneck peeling) match the graph,
however often and in whatever order they are asked (cache cold or warm)."""
import copy
import random

from sim import gen, ref
from sim import world as W
from sim.core import H, Violation, digest, canon

ID = "C17"
LEVEL = "exploration"
BATCH = 40
QUICK_WORLDS = 960
THOROUGH_BUDGET_S = 600
RUN_TIMEOUT = 90
RULE = ("world = (1-2 tiny graphs: DAG with conserving flow or digraph with cycles; a seeded query history of 20-60 calls over "
        "nodes_reachable / nodes_reaching / compute_edge_max_reachable_value / is_scc_edge / get_width (with and without ignore sets) / "
        "the stDAG memo properties / compute_max_edge_antichain (weight functions incl. zeros and large weights) / "
        "get_longest_incompatible_sequences / decompose_using_max_bottleneck / max_bottleneck_path, repeated, interleaved and alternating "
        "between the graph objects).  Every answer is compared with plain BFS / brute-force antichain / recomputed peeling at the moment "
        "it is given, and every earlier answer is re-compared at the end of the history.  distinct = digest of (graphs, history); "
        "non-trivial = at least one cached query was asked again after other queries (warm cache) and the history has >= 10 calls.")
COMPONENTS = {"real": ["stDAG, stDiGraph, graphutils.max_bottleneck_path / min_cost_flow, networkx network simplex"], "stub": [], "not_run": ["HiGHS"]}
ASSUMPTIONS = ["graphs <= 7 nodes / 10 edges so that brute force over edge subsets is exact",
               "digraph width is only checked for self-consistency (and against brute force on acyclic inputs); the width identity itself is C09"]


def gen_world(seed, tier):
    rng = random.Random(H(seed, "c17"))
    graphs = []
    rf = random.Random(H(seed, "c17float"))
    for _ in range(rng.choice([1, 1, 2])):
        r = rng.random()
        if r < 0.5:
            g = gen.dag_layered(rng, max_nodes=7, max_edges=10, max_routes=4, wmax=rng.choice([9, 9, 1000]))
            if rf.random() < 0.3 and g.get("routes"):
                # "all weight functions": decimal float weights (0.1-steps), whose sums and differences are inexact in binary
                ws = [round(0.1 * rf.randint(1, 40), 1) for _ in g["routes"]]
                flow = {}
                for r_, w_ in zip(g["routes"], ws):
                    for e_ in zip(r_[:-1], r_[1:]):
                        flow[e_] = flow.get(e_, 0) + w_
                g["edges"] = [[u, v, flow.get((u, v), 0)] for u, v, _ in g["edges"]]
                g["weights"] = ws
        elif r < 0.8:
            g = gen.digraph_cyclic(rng, max_nodes=6, max_edges=8, max_routes=3)
            if rf.random() < 0.35:
                g = gen.digraph_parallel(rf)      # strongly connected parts joined by parallel edges
        else:
            g = gen.digraph_rich(rng, max_nodes=6, max_extra=5)
            for e in g["edges"]:
                e[2] = rng.choice([0, 1, 2, 5, 50])
        if g["kind"] != "dag" and rf.random() < 0.25 and any(e[1] == x for e in g["edges"] for x in g["nodes"]):
            # a strongly connected part that no source reaches (a 2-cycle or a self-loop without any in-degree-0 node in
            # front of it) and that feeds into the graph: legal, and the queries are still plain graph searches
            extra = [x for x in gen.NAME_POOL if x not in g["nodes"]]
            tgt = rf.choice([x for x in g["nodes"] if any(e[1] == x for e in g["edges"])])      # the sources stay sources
            if rf.random() < 0.5:
                p_, q_ = extra[0], extra[1]
                g["nodes"] = g["nodes"] + [p_, q_]
                g["edges"] = g["edges"] + [[p_, q_, rf.choice([1, 5, 50])], [q_, p_, rf.choice([1, 9, 70])], [q_, tgt, rf.choice([1, 3])]]
            else:
                z_ = extra[0]
                g["nodes"] = g["nodes"] + [z_]
                g["edges"] = g["edges"] + [[z_, z_, rf.choice([1, 7, 60])], [z_, tgt, rf.choice([1, 2])]]
            g["unrooted"] = True
        if rng.random() < 0.25:
            # an isolated node: it is a source and a sink at once
            extra = [x for x in gen.NAME_POOL if x not in g["nodes"]]
            g["nodes"] = g["nodes"] + [rng.choice(extra)]
        graphs.append(g)
    nops = rng.randint(20, 60)
    ops = []
    last_ign = {}
    for _ in range(nops):
        gi = rng.randrange(len(graphs))
        g = graphs[gi]
        dag = gen.is_acyclic(g)
        choices = ["reach", "reaching", "reach", "reaching", "maxval", "scc_edge", "width", "width_ign", "width"]
        if g.get("unrooted"):
            # widths / covers are about source-to-sink walks and say nothing about a part no source reaches
            choices = ["reach", "reaching", "reach", "reaching", "maxval", "maxval", "scc_edge", "scc_stats"]
        elif dag:
            choices += ["memo", "memo", "antichain", "antichain_w", "peel", "bottleneck", "dg_width", "antichain_w"]
        else:
            choices += ["incompat", "scc_stats", "width_ign", "width_ign"]
        op = rng.choice(choices)
        o = {"g": gi, "op": op}
        if op in ("reach", "reaching"):
            o["node"] = rng.choice(g["nodes"] + ["@source", "@sink"])
        elif op == "maxval":
            o["attr"] = rng.choice(["flow", "flow", "cap", "missing"])
        elif op == "scc_edge":
            e = rng.choice(g["edges"])
            o["edge"] = [e[0], e[1]]
        elif op in ("width_ign", "dg_width"):
            o["ignore"] = [[e[0], e[1]] for e in g["edges"] if rng.random() < 0.3]
            if not dag and rf.random() < 0.4:
                # structured lists: some / all-but-one / all of the edges that share a place in the condensation with a
                # seeded edge (the member edges of its SCC, or the parallel edges between the same two SCCs)
                succ_ = {}
                for a_, b_, _ in g["edges"]:
                    succ_.setdefault(a_, []).append(b_)
                    succ_.setdefault(b_, [])
                reach_ = {x: ref.reachable(succ_, x) for x in succ_}
                comp_ = {x: min(y for y in succ_ if (y in reach_[x] and x in reach_[y]) or y == x) for x in succ_}
                e0 = rf.choice(g["edges"])
                cls = [[a_, b_] for a_, b_, _ in g["edges"] if (comp_[a_], comp_[b_]) == (comp_[e0[0]], comp_[e0[1]])]
                rf.shuffle(cls)
                keep = rf.choice([0, 0, 1, 1, rf.randint(0, len(cls))])
                o["ignore"] = cls[:max(1, len(cls) - keep)]
            prev = last_ign.get((gi, op))
            if prev is not None and rf.random() < 0.5:
                # a neighbour of an earlier query on the same object: one edge more or one edge less
                o["ignore"] = [list(e) for e in prev]
                e = rf.choice(g["edges"])
                if prev and rf.random() < 0.6:
                    # ... preferably an edge that shares its place in the condensation with one already on the list
                    succ2 = {}
                    for a_, b_, _ in g["edges"]:
                        succ2.setdefault(a_, []).append(b_)
                        succ2.setdefault(b_, [])
                    reach2 = {x: ref.reachable(succ2, x) for x in succ2}
                    comp2 = {x: min(y for y in succ2 if (y in reach2[x] and x in reach2[y]) or y == x) for x in succ2}
                    p0 = rf.choice(prev)
                    if p0[0] in comp2 and p0[1] in comp2:
                        same = [e_ for e_ in g["edges"] if (comp2[e_[0]], comp2[e_[1]]) == (comp2[p0[0]], comp2[p0[1]])]
                        e = rf.choice(same)
                if [e[0], e[1]] in o["ignore"]:
                    o["ignore"].remove([e[0], e[1]])
                else:
                    o["ignore"].append([e[0], e[1]])
            if len(o["ignore"]) == len(g["edges"]):
                o["ignore"].pop()        # at least one edge remains (the all-ignored graph has no width; cf. C09)
            last_ign[(gi, op)] = [list(e) for e in o["ignore"]]
            if o["ignore"] and rng.random() < 0.3:
                o["ignore"] = o["ignore"] + [o["ignore"][0]] * rng.randint(1, 3)      # an ignore *list* may repeat an edge
            o["with_st_edges"] = rng.random() < 0.7
        elif op == "antichain_w":
            o["weights"] = [[e[0], e[1], rng.choice([0, 1, 1, 2, 3, 7, 100000])] for e in g["edges"] if rng.random() < 0.8]
            if not o["weights"]:
                e = g["edges"][0]
                o["weights"] = [[e[0], e[1], 0]]     # an empty dict means "no weight function" to the library
            o["st_weight"] = rng.choice([0, 0, 1])
        elif op == "memo":
            o["which"] = rng.choice(["reachable_nodes_from", "nodes_reaching", "reachable_edges_from", "reachable_edges_rev_from"])
        elif op == "incompat":
            # the function's precondition: the sequences are safe sequences; they are computed
            # from a seeded trusted-edge set X at run time
            o["X"] = [[e[0], e[1]] for e in g["edges"] if rng.random() < 0.7] or [[g["edges"][0][0], g["edges"][0][1]]]
        ops.append(o)
    return {"graphs": graphs, "ops": ops}


def plans(world, info, seed, tier):
    return [{"world": world}]


def _antichain_bruteforce(edges, weight, reach):
    es = [e for e in edges]
    best = 0
    m = len(es)
    if m > 14:
        return None
    for mask in range(1 << m):
        tot = 0
        sel = []
        for i in range(m):
            if mask >> i & 1:
                sel.append(es[i])
                tot += weight.get(es[i], 0)
        if tot <= best:
            continue
        ok = True
        for i in range(len(sel)):
            for j in range(len(sel)):
                if i != j and sel[j][0] in reach[sel[i][1]]:
                    ok = False
                    break
            if not ok:
                break
        if ok:
            best = tot
    return best


def execute(spec):
    world = spec["world"]
    import flowpaths as fp
    from flowpaths.utils import graphutils as gu
    sim = W.SimWorld(1, {})
    vs = []
    counters = {}
    warm = 0
    asked = set()

    def V(clause, detail, op):
        vs.append(Violation(ID, "C17." + clause, op["op"], dict(detail, op=op)))
    with W.active(sim):
        objs = []
        for g in world["graphs"]:
            G = gen.to_nx(g, "flow")
            for ei, (u_, v_, _f) in enumerate(g["edges"]):
                G[u_][v_]["cap"] = (ei * 7 + 3) % 11      # a second, unrelated weight attribute
            dag = gen.is_acyclic(g)
            SD = fp.stDiGraph(G)
            ST = fp.stDAG(G) if dag else None
            succ = {u: list(SD.successors(u)) for u in SD.nodes()}
            pred = {u: list(SD.predecessors(u)) for u in SD.nodes()}
            reach = {u: ref.reachable(succ, u) for u in SD.nodes()}
            rreach = {u: ref.reachable(pred, u) for u in SD.nodes()}
            objs.append({"g": g, "G": G, "SD": SD, "ST": ST, "succ": succ, "pred": pred, "reach": reach, "rreach": rreach,
                         "dag": dag, "edges": list(SD.edges())})
            if ST is not None:
                # the stDAG has its own synthetic names
                s2 = {u: list(ST.successors(u)) for u in ST.nodes()}
                objs[-1]["succ_t"] = s2
                objs[-1]["reach_t"] = {u: ref.reachable(s2, u) for u in ST.nodes()}
                p2 = {u: list(ST.predecessors(u)) for u in ST.nodes()}
                objs[-1]["rreach_t"] = {u: ref.reachable(p2, u) for u in ST.nodes()}
        remembered = []   # (returned object, deep copy, op)
        for op in world["ops"]:
            o = objs[op["g"]]
            SD, ST = o["SD"], o["ST"]
            kind = op["op"]
            key = (op["g"], kind, repr(op.get("node") or op.get("which") or op.get("edge") or op.get("ignore")))
            if key in asked:
                warm += 1
            asked.add(key)
            try:
                if kind in ("reach", "reaching"):
                    node = op["node"]
                    node = SD.source if node == "@source" else SD.sink if node == "@sink" else node
                    got = SD.nodes_reachable(node) if kind == "reach" else SD.nodes_reaching(node)
                    exp = o["reach"][node] if kind == "reach" else o["rreach"][node]
                    if set(got) != exp:
                        V("reachability_differs", {"node": node, "got": sorted(got), "expected": sorted(exp)}, op)
                    remembered.append((got, set(got), op))
                elif kind == "maxval":
                    attr = op.get("attr", "flow")
                    got = SD.compute_edge_max_reachable_value(attr)
                    for (u, v) in o["edges"]:
                        w = lambda a, b: float(SD[a][b].get(attr, 0.0))
                        best = w(u, v)
                        for (a, b) in o["edges"]:
                            if a in o["reach"][v] or b in o["rreach"][u]:
                                best = max(best, w(a, b))
                        if abs(got[(u, v)] - best) > 1e-12:
                            V("max_reachable_value_differs", {"edge": [u, v], "got": got[(u, v)], "expected": best}, op)
                            break
                elif kind == "scc_edge":
                    u, v = op["edge"]
                    got = SD.is_scc_edge(u, v)
                    exp = u in o["reach"][v]
                    if bool(got) != exp:
                        V("is_scc_edge_differs", {"edge": [u, v], "got": got, "expected": exp}, op)
                elif kind == "scc_stats":
                    n1 = SD.get_number_of_nontrivial_SCCs()
                    comps = set()
                    for u in SD.nodes():
                        comp = frozenset(x for x in o["reach"][u] if u in o["reach"][x])
                        if any(a in comp and b in comp for a, b in o["edges"]):
                            comps.add(comp)
                    if n1 != len(comps):
                        V("scc_count_differs", {"got": n1, "expected": len(comps)}, op)
                elif kind in ("width", "width_ign"):
                    ign = [tuple(e) for e in op.get("ignore", [])]
                    tgt = ST if (ST is not None) else SD
                    if kind == "width_ign" and op.get("with_st_edges"):
                        ign = ign + list(tgt.source_sink_edges)
                    got = tgt.get_width(edges_to_ignore=ign) if kind == "width_ign" else tgt.get_width()
                    got2 = tgt.get_width(edges_to_ignore=list(ign)) if kind == "width_ign" else tgt.get_width()
                    if got != got2:
                        V("width_not_repeatable", {"first": got, "second": got2}, op)
                    if kind == "width_ign" and len(set(ign)) != len(ign):
                        got3 = tgt.get_width(edges_to_ignore=list(dict.fromkeys(ign)))
                        if got3 != got:
                            V("width_depends_on_repeated_ignore_entries", {"with_repeats": got, "deduplicated": got3, "ignore": ign}, op)
                    if ST is not None:
                        wt = {e: 1 for e in ST.edges() if e not in set(ign)}
                        exp = _antichain_bruteforce(list(ST.edges()), wt, o["reach_t"])
                        if exp is not None and got != exp:
                            V("width_differs", {"got": got, "brute_force": exp, "ignore": ign}, op)
                    o.setdefault("widths", {})[repr(sorted(ign))] = got
                elif kind == "dg_width":
                    ign = [tuple(e) for e in op.get("ignore", [])]
                    got = SD.get_width(edges_to_ignore=ign) if ign else SD.get_width()
                    wt = {e: 1 for e in SD.edges() if e not in set(ign)}
                    exp = _antichain_bruteforce(list(SD.edges()), wt, o["reach"])
                    if exp is not None and got != exp:
                        V("digraph_width_differs_on_dag", {"got": got, "brute_force": exp, "ignore": ign}, op)
                elif kind == "memo":
                    got = getattr(ST, op["which"])
                    for node in ST.nodes():
                        if op["which"] == "reachable_nodes_from":
                            exp = o["reach_t"][node]
                        elif op["which"] == "nodes_reaching":
                            exp = o["rreach_t"][node]
                        elif op["which"] == "reachable_edges_from":
                            exp = {(a, b) for a, b in ST.edges() if a in o["reach_t"][node]}
                        else:
                            exp = {(a, b) for a, b in ST.edges() if b in o["rreach_t"][node]}
                        if set(got[node]) != exp:
                            V("memo_differs", {"which": op["which"], "node": node, "got": sorted(map(str, got[node])), "expected": sorted(map(str, exp))}, op)
                            break
                    remembered.append((got, copy.deepcopy(got), op))
                elif kind in ("antichain", "antichain_w"):
                    if kind == "antichain":
                        wf = None
                        wt = {e: (0 if (e[0] == ST.source or e[1] == ST.sink) else 1) for e in ST.edges()}
                    else:
                        wf = {(u, v): w for u, v, w in op["weights"]}
                        for e in ST.source_sink_edges:
                            if op.get("st_weight"):
                                wf[e] = op["st_weight"]
                        wt = {e: wf.get(e, 0) for e in ST.edges()}
                    cost, anti = ST.compute_max_edge_antichain(get_antichain=True, weight_function=wf)
                    cost2 = ST.compute_max_edge_antichain(get_antichain=False, weight_function=wf)
                    if cost != cost2:
                        V("antichain_not_repeatable", {"with": cost, "without": cost2}, op)
                    if any(e not in wt for e in anti) or len(set(anti)) != len(anti):
                        V("antichain_not_edges", {"antichain": anti}, op)
                    else:
                        for i in range(len(anti)):
                            for j in range(len(anti)):
                                if i != j and anti[j][0] in o["reach_t"][anti[i][1]]:
                                    V("antichain_not_pairwise_unreachable", {"a": anti[i], "b": anti[j]}, op)
                        if sum(wt[e] for e in anti) != cost:
                            V("antichain_weight_differs_from_reported", {"weight": sum(wt[e] for e in anti), "reported": cost}, op)
                        exp = _antichain_bruteforce(list(ST.edges()), wt, o["reach_t"])
                        if exp is not None and cost != exp:
                            V("antichain_not_maximum", {"reported": cost, "brute_force": exp}, op)
                elif kind == "peel":
                    g = o["g"]
                    if all(isinstance(e[2], (int, float)) for e in g["edges"]) and g.get("routes"):
                        paths, weights = ST.decompose_using_max_bottleneck("flow")
                        flow = {(u, v): f for u, v, f in g["edges"]}
                        bad = ref.check_routes(g, paths, True)
                        if bad:
                            V("peeling_path_invalid", {"problems": bad[:2]}, op)
                        elif any(w <= 0 for w in weights) or len(weights) != len(paths):
                            V("peeling_weight_invalid", {"weights": weights}, op)
                        else:
                            expl = ref.explained_flow_edges(paths, weights)
                            for e, f in flow.items():
                                if abs(expl.get(e, 0) - f) > 1e-9 * max(1, abs(f)):
                                    V("peeling_does_not_add_up", {"edge": e, "flow": f, "explained": expl.get(e, 0)}, op)
                                    break
                        # the graph's own flow values must be untouched
                        for u, v, f in g["edges"]:
                            if ST[u][v].get("flow") != f or o["G"][u][v].get("flow") != f:
                                V("peeling_modified_graph", {"edge": [u, v]}, op)
                                break
                elif kind == "bottleneck":
                    g = o["g"]
                    b, path = gu.max_bottleneck_path(o["G"], "flow")
                    allp = ref.st_paths(g, limit=4000)
                    flow = {(u, v): f for u, v, f in g["edges"]}
                    best = max(min(flow[e] for e in zip(p[:-1], p[1:])) for p in allp if len(p) > 1)
                    if best == 0:
                        if path is not None:
                            V("bottleneck_zero_flow", {"path": path}, op)
                    elif path is None or ref.check_routes(g, [path], True):
                        V("bottleneck_path_invalid", {"path": path}, op)
                    elif min(flow[e] for e in zip(path[:-1], path[1:])) != b or b != best:
                        V("bottleneck_not_maximum", {"reported": b, "path_min": min(flow[e] for e in zip(path[:-1], path[1:])), "best": best}, op)
                elif kind == "incompat":
                    from flowpaths.utils import safetypathcoverscycles as spcc
                    seqs = [[tuple(e) for e in s] for s in spcc.maximal_safe_sequences_via_dominators(SD, set(tuple(e) for e in op["X"]))]
                    got = SD.get_longest_incompatible_sequences(seqs)
                    got2 = SD.get_longest_incompatible_sequences(seqs)
                    if got != got2:
                        V("incompatible_sequences_not_repeatable", {}, op)
                    for s in got:
                        if s not in seqs:
                            V("incompatible_sequence_invented", {"sequence": s}, op)
                    for i in range(len(got)):
                        for j in range(i + 1, len(got)):
                            if ref.exists_walk(o["succ"], SD.source, SD.sink, [got[i], got[j]]):
                                V("sequences_can_share_a_walk", {"a": got[i], "b": got[j]}, op)
            except Exception as e:
                import traceback
                V("exception", {"exc": type(e).__name__, "msg": str(e)[:200], "tb": traceback.format_exc()[-500:]}, op)
            counters["op:" + kind] = counters.get("op:" + kind, 0) + 1
        # earlier answers are unchanged later
        for obj, cp, op in remembered:
            if obj != cp:
                V("earlier_answer_changed", {}, op)
                break
        # widths asked earlier are the same if asked again now (cold vs warm)
        for o in objs:
            for key, val in (o.get("widths") or {}).items():
                tgt = o["ST"] if o["ST"] is not None else o["SD"]
                ign = eval(key)
                again = tgt.get_width(edges_to_ignore=ign) if ign else tgt.get_width()
                if again != val:
                    V("width_changed_over_history", {"ignore": ign, "earlier": val, "now": again}, {"op": "width", "g": 0})
                # ... and the same as a fresh object of the same graph gives for this one query (nothing asked before)
                fresh = fp.stDAG(o["G"]) if o["ST"] is not None else fp.stDiGraph(o["G"])
                ren = {tgt.source: fresh.source, tgt.sink: fresh.sink}
                ign_f = [(ren.get(a, a), ren.get(b, b)) for a, b in ign]
                cold = fresh.get_width(edges_to_ignore=ign_f) if ign_f else fresh.get_width()
                if cold != val:
                    V("width_differs_from_fresh_object", {"ignore": ign, "in_history": val, "fresh_object": cold}, {"op": "width", "g": 0})
    seen, uniq = set(), []
    for v in vs:
        if v.key not in seen:
            seen.add(v.key)
            uniq.append(dict(v))
    counters["warm_queries"] = warm
    return {"violations": uniq, "digest": digest([world["ops"], [v["clause"] for v in uniq]]),
            "sig": digest([[g["edges"] for g in world["graphs"]], world["ops"]]),
            "nontrivial": warm > 0 and len(world["ops"]) >= 10, "fired": {}, "probes": {"warm_cache_query": warm},
            "sim_s": 0.0, "invocations": 0, "counters": counters, "summary": {"ops": len(world["ops"]), "warm": warm}}


def sample_view(spec, outcome):
    w = spec["world"]
    return {"graphs": [g["edges"] for g in w["graphs"]], "history": w["ops"][:25], "summary": outcome.get("summary")}


def shrink(spec):
    ops = spec["world"]["ops"]
    n = len(ops)
    if n > 1:
        half = n // 2
        c = copy.deepcopy(spec); c["world"]["ops"] = ops[:half]; yield c
        c = copy.deepcopy(spec); c["world"]["ops"] = ops[half:]; yield c
        for i in range(n):
            c = copy.deepcopy(spec); del c["world"]["ops"][i]; yield c
