"""C12 - the solver wrapper's modelling helpers encode exactly the relation they name;
queued bound changes set exactly the requested bounds; a replaced objective fully replaces
the previous one; values are read back for exactly the variables asked for.

The quantifier is a call history on one SolverWrapper; the oracle is an executable reference
model of the wrapper state plus a brute-force optimiser over the intended relations."""
import copy
import itertools
import math
import random

from sim import world as W
from sim.core import H, Violation, digest

ID = "C12"
LEVEL = "exploration"
BATCH = 40
QUICK_WORLDS = 1200
THOROUGH_BUDGET_S = 600
RUN_TIMEOUT = 90
RULE = ("world = seeded call history (<= 30 operations) on one SolverWrapper: add_variables (integer/continuous; scalar, dict and list "
        "bounds; ub = 0; non powers of two), linear rows, binary*continuous / integer*continuous product helpers, piecewise-constant "
        "helper, set_objective several times with min/max, queue_fix_variable, queue_set_var_lower_bound, fix_variable, optimize, "
        "get_values on seeded subsets; on wrappers with the extra signal timeout one solve may overshoot its limit in simulated time (the virtual SIGALRM "
        "fires, the status must read kTimeLimit) and the documented attributes time_limit / use_also_custom_timeout may be changed before the next optimize().  After every optimize(): column bounds == reference bounds (only the requested columns changed), "
        "cost vector and sense == last objective, status and optimum == brute force over the intended relations (p = b*c, p = i*c, "
        "y = constant of x's range) on the integer grid.  distinct = digest of the history; non-trivial = the history contains >= 1 helper "
        "relation, >= 1 queued or direct bound change and >= 2 optimize() calls.")
COMPONENTS = {"real": ["SolverWrapper (all modelling helpers, queues, objective, get_values)", "HighsCustom.set_objective_without_solving", "HiGHS"],
              "stub": ["none (replies are delivered unchanged)"], "not_run": ["gurobi backend"]}
ASSUMPTIONS = ["helper preconditions as documented: factor bounds given to the helper hold, ranges non-overlapping, x inside the union, "
               "constants within the big-M span, integer factor <= 2^ceil(log2(ub+1)) - 1", "HiGHS solves the tiny MILPs to optimality"]


def gen_world(seed, tier):
    rng = random.Random(H(seed, "c12"))
    ops = []
    vars_ = []       # reference-side description of user variables

    def add_var(name, lb, ub, typ, style="scalar", role="free"):
        vars_.append({"name": name, "lb": lb, "ub": ub, "type": typ, "role": role})
        return len(vars_) - 1

    # a few free integer variables
    groups = []
    nfree = rng.randint(1, 3)
    style = rng.choice(["scalar", "dict", "list"])
    ubs = [rng.choice([0, 1, 1, 2, 3, 5]) for _ in range(nfree)]
    idxs = [add_var("x", 0, u, "integer") for u in ubs]
    ops.append({"op": "add_vars", "prefix": "x", "ids": idxs, "style": style})
    rel = []
    nrel = rng.randint(1, 3)
    for r in range(nrel):
        kind = rng.choice(["bin_prod", "int_prod", "int_prod", "pw"])
        if kind == "bin_prod":
            ub = rng.choice([0, 1, 3, 5, 7, 2.5])
            b = add_var("b%d" % r, 0, 1, "integer")
            ctyp = rng.choice(["integer", "continuous"]) if float(ub).is_integer() else "continuous"
            c = add_var("c%d" % r, 0, ub, ctyp, role="factor_c")
            # the helper's preconditions concern the factors only: the product variable may have a looser box
            p = add_var("p%d" % r, rng.choice([0, 0, -3, -10]), ub + rng.choice([0, 0, 4]), "continuous", role="defined")
            ops.append({"op": "add_vars", "prefix": "b%d_" % r, "ids": [b], "style": "scalar"})
            ops.append({"op": "add_vars", "prefix": "c%d_" % r, "ids": [c], "style": "scalar"})
            ops.append({"op": "add_vars", "prefix": "p%d_" % r, "ids": [p], "style": "scalar"})
            ops.append({"op": "bin_prod", "b": b, "c": c, "p": p, "lb": 0, "ub": ub})
            rel.append({"kind": "prod", "a": b, "c": c, "p": p})
        elif kind == "int_prod":
            ub = rng.choice([0, 1, 2, 3, 5, 6, 7, 9, 4.5, 3.5, 1.5, 0.5])
            bits = math.ceil(math.log2(ub + 1))
            imax = min(2 ** bits - 1, 5)
            iub = rng.randint(0, imax) if imax > 0 else 0
            i = add_var("i%d" % r, 0, iub, "integer")
            ctyp = rng.choice(["integer", "continuous"]) if float(ub).is_integer() and ub <= 5 else "continuous"
            c = add_var("c%d" % r, 0, ub, ctyp, role="factor_c")
            p = add_var("p%d" % r, rng.choice([0, 0, -5]), iub * ub + rng.choice([0, 0, 3]), "continuous", role="defined")
            ops.append({"op": "add_vars", "prefix": "i%d_" % r, "ids": [i], "style": "scalar"})
            ops.append({"op": "add_vars", "prefix": "c%d_" % r, "ids": [c], "style": "scalar"})
            ops.append({"op": "add_vars", "prefix": "p%d_" % r, "ids": [p], "style": "scalar"})
            ops.append({"op": "int_prod", "i": i, "c": c, "p": p, "lb": 0, "ub": ub})
            rel.append({"kind": "prod", "a": i, "c": c, "p": p})
        else:
            npieces = rng.randint(1, 3)
            cuts = sorted(rng.sample(range(1, 8), npieces - 1)) if npieces > 1 else []
            top = rng.randint((cuts[-1] + 1) if cuts else 0, 8)
            ranges = []
            lo = 0
            for cpt in cuts:
                ranges.append([lo, cpt - 1 if cpt - 1 >= lo else lo])
                lo = cpt
            ranges.append([lo, top])
            # make ranges non-overlapping integer intervals
            fixed = []
            prev = -1
            for L, U in ranges:
                L = max(L, prev + 1)
                U = max(U, L)
                fixed.append([L, U])
                prev = U
            ranges = fixed
            M = 2 * (max(U for _, U in ranges) - min(L for L, _ in ranges))
            consts = [round(rng.uniform(0, M / 2), 2) if M > 0 else 0.0 for _ in ranges]
            if rng.random() < 0.5:
                # the documented precondition is non-overlapping ranges, not sorted ones
                perm = list(range(len(ranges)))
                rng.shuffle(perm)
                ranges = [ranges[i] for i in perm]
                consts = [consts[i] for i in perm]
            x = add_var("px%d" % r, min(L for L, _ in ranges), max(U for _, U in ranges), "integer", role="pw_x")
            y = add_var("py%d" % r, 0, max(consts + [0]) + 1, "continuous", role="defined")
            ops.append({"op": "add_vars", "prefix": "px%d_" % r, "ids": [x], "style": "scalar"})
            ops.append({"op": "add_vars", "prefix": "py%d_" % r, "ids": [y], "style": "scalar"})
            ops.append({"op": "pw", "x": x, "y": y, "ranges": ranges, "constants": consts})
            rel.append({"kind": "pw", "x": x, "y": y, "ranges": ranges, "constants": consts})
    # continuous factors must be fixed before the first optimize
    for v, d in enumerate(vars_):
        if d["role"] == "factor_c" and d["type"] == "continuous":
            val = round(rng.uniform(0, d["ub"]), 2) if d["ub"] > 0 else 0
            if rng.random() < 0.3:
                val = d["ub"]
            ops.append({"op": rng.choice(["queue_fix", "fix"]), "v": v, "val": val})
    # linear rows over integer variables
    ints = [v for v, d in enumerate(vars_) if d["type"] == "integer"]
    for _ in range(rng.randint(0, 2)):
        k = rng.randint(1, min(3, len(ints)))
        terms = [[v, rng.choice([1, 1, 2, -1])] for v in rng.sample(ints, k)]
        ops.append({"op": "lin", "terms": terms, "sense": rng.choice(["<=", ">=", "=="]), "rhs": rng.randint(0, 6)})
    allv = list(range(len(vars_)))
    # the episode: objectives, bound changes, optimize, reads
    qkind = {}
    for o in ops:
        if o["op"] == "queue_fix":
            qkind[o["v"]] = "queue_fix"
    for ep in range(rng.randint(2, 5)):
        for _ in range(rng.randint(0, 3)):
            v = rng.choice(ints)
            d = vars_[v]
            r = rng.random()
            kind = "queue_fix" if r < 0.4 else "queue_lb" if r < 0.7 else "fix"
            # which of the two queues is applied first is not documented: one kind per variable and interval
            if kind.startswith("queue") and qkind.get(v, kind) != kind:
                kind = qkind[v]
            if kind.startswith("queue"):
                qkind[v] = kind
            if kind == "queue_fix":
                ops.append({"op": "queue_fix", "v": v, "val": rng.randint(0, max(0, int(d["ub"])))})
            elif kind == "queue_lb":
                ops.append({"op": "queue_lb", "v": v, "val": rng.randint(0, max(0, int(d["ub"])) + (1 if rng.random() < 0.1 else 0))})
            else:
                ops.append({"op": "fix", "v": v, "val": rng.randint(0, max(0, int(d["ub"])))})
        for _ in range(rng.randint(1, 2)):
            k = rng.randint(1, min(3, len(allv)))
            terms = [[v, rng.choice([1, 1, 2, 3, -1, 0.5])] for v in rng.sample(allv, k)]
            if rng.random() < 0.5 and rel:
                rr = rng.choice(rel)
                terms = [[rr.get("p", rr.get("y")), rng.choice([1, -1])]] + [t for t in terms if t[0] != rr.get("p", rr.get("y"))][:1]
            if rng.random() < 0.25:
                # an expression may mention a variable more than once: the coefficients add up
                t0 = rng.choice(terms)
                terms = terms + [[t0[0], rng.choice([1, 2, -1])]]
                if rng.random() < 0.3:
                    terms = terms + [[t0[0], 1]]
            ops.append({"op": "objective", "terms": terms, "sense": rng.choice(["minimize", "maximize", "min", "max"]),
                        "const": rng.choice([0, 0, 2.5])})
        ops.append({"op": "optimize"})
        qkind = {}
        ops.append({"op": "get_values", "vars": rng.sample(allv, rng.randint(1, len(allv))), "binary": False})
    wopts = {}
    if rng.random() < 0.3:
        # a wrapper with a finite limit and the extra signal timeout: optimize() then takes the _run_with_timeout route
        wopts = {"time_limit": rng.choice([100, 3600]), "use_also_custom_timeout": rng.random() < 0.7}
    r3 = random.Random(H(seed, "c12opts"))
    if r3.random() < 0.3:
        wopts["optimization_sense"] = r3.choice(["maximize", "minimize", "maximize"])      # documented constructor option
    if r3.random() < 0.25:
        # a rejected objective (an inequality is not an objective) somewhere before a valid one: it must leave no trace
        obj_pos = [i for i, o in enumerate(ops) if o["op"] == "objective"]
        if obj_pos:
            at = r3.choice(obj_pos)
            ops.insert(at, {"op": "bad_objective", "terms": ops[at]["terms"], "sense": r3.choice(["maximize", "minimize", "max"])})
    faults = []
    if wopts.get("use_also_custom_timeout"):
        # the documented wrapper attributes are part of its state: let the extra signal timeout fire during one
        # optimize() (solver overshoots its limit in simulated time), then possibly lift the limit / switch the
        # extra timeout off before the next optimize(); the status read afterwards must describe the last solve
        r2 = random.Random(H(seed, "c12attr"))
        opt_pos = [i for i, o in enumerate(ops) if o["op"] == "optimize"]
        if r2.random() < 0.7 and len(opt_pos) >= 2:
            e = r2.randrange(0, len(opt_pos) - 1)
            faults.append({"at": e, "kind": "overshoot"})
            choice = r2.choice(["inf", "off", "inf", "off", "keep"])
            if choice != "keep":
                at = r2.randint(opt_pos[e] + 1, opt_pos[e + 1])
                ops.insert(at, {"op": "set_attr", "attr": "time_limit" if choice == "inf" else "use_also_custom_timeout",
                                "value": "inf" if choice == "inf" else False})
    return {"vars": vars_, "ops": ops, "relations": rel, "wrapper_options": wopts, "faults": faults}


def plans(world, info, seed, tier):
    return [{"world": world}]


def _brute(vars_, bounds, relations, lins, obj):
    """Optimum of the intended model: enumerate the integer variables inside their current
    bounds; continuous factors are fixed; defined variables follow their relation."""
    n = len(vars_)
    defined = {}
    for r in relations:
        defined[r.get("p", r.get("y"))] = r
    enum = []
    fixed = {}
    for v, d in enumerate(vars_):
        lb, ub = bounds[v]
        if v in defined:
            continue
        if d["type"] == "integer":
            lo, hi = math.ceil(lb - 1e-9), math.floor(ub + 1e-9)
            enum.append((v, list(range(lo, hi + 1))))
        else:
            if abs(ub - lb) > 1e-12:
                return "unsupported", None
            fixed[v] = lb
    best = None
    sense = obj["sense"]
    for combo in itertools.product(*[dom for _, dom in enum]):
        val = dict(fixed)
        for (v, _), x in zip(enum, combo):
            val[v] = x
        ok = True
        for r in relations:
            if r["kind"] == "prod":
                val[r["p"]] = val[r["a"]] * val[r["c"]]
            else:
                x = val[r["x"]]
                hit = [c for (L, U), c in zip(r["ranges"], r["constants"]) if L <= x <= U]
                if not hit:
                    ok = False
                    break
                val[r["y"]] = hit[0]
        if not ok:
            continue
        for v in defined:
            lb, ub = bounds[v]
            if val[v] < lb - 1e-7 or val[v] > ub + 1e-7:
                ok = False
                break
        if not ok:
            continue
        for terms, sn, rhs in lins:
            s = sum(c * val[v] for v, c in terms)
            if (sn == "<=" and s > rhs + 1e-7) or (sn == ">=" and s < rhs - 1e-7) or (sn == "==" and abs(s - rhs) > 1e-7):
                ok = False
                break
        if not ok:
            continue
        z = sum(c * val[v] for v, c in obj["terms"].items()) + obj["const"]
        if best is None or (sense == "min" and z < best - 1e-12) or (sense == "max" and z > best + 1e-12):
            best = z
    if best is None:
        return "kInfeasible", None
    return "kOptimal", best


def execute(spec):
    world = spec["world"]
    from flowpaths.utils import solverwrapper as sw
    import highspy
    sim = W.SimWorld(1, {"faults": world.get("faults") or []})
    vs = []
    vars_ = world["vars"]
    counters = {}

    def V(clause, detail, i):
        vs.append(Violation(ID, "C12." + clause, world["ops"][i]["op"], dict(detail, at_op=i)))
    with W.active(sim):
        wr = sw.SolverWrapper(**(world.get("wrapper_options") or {}))
        hv = {}                     # user var -> highs var
        bounds = {v: [float(d["lb"]), float(d["ub"])] for v, d in enumerate(vars_)}   # reference bounds incl. pending
        lins = []
        rels = []
        obj = {"terms": {}, "const": 0.0, "sense": "min"}
        noptimize = 0
        nbound = 0
        pend_fix, pend_lb = {}, {}
        pending_cols = set()
        snapshot = None
        last_status = None
        for i, op in enumerate(world["ops"]):
            k = op["op"]
            counters["op:" + k] = counters.get("op:" + k, 0) + 1
            try:
                if k == "add_vars":
                    ids = op["ids"]
                    keys = list(range(len(ids)))
                    lbs = [vars_[v]["lb"] for v in ids]
                    ubs = [vars_[v]["ub"] for v in ids]
                    typ = vars_[ids[0]]["type"]
                    if op["style"] == "dict":
                        # dict bounds map index -> bound; their insertion order is unrelated to the index order
                        lb_arg = {kk: l for kk, l in reversed(list(zip(keys, lbs)))}
                        ub_arg = {kk: u for kk, u in reversed(list(zip(keys, ubs)))}
                    elif op["style"] == "list":
                        lb_arg, ub_arg = list(lbs), list(ubs)
                    else:
                        if len(set(lbs)) == 1 and len(set(ubs)) == 1:
                            lb_arg, ub_arg = lbs[0], ubs[0]
                        else:
                            lb_arg, ub_arg = list(lbs), list(ubs)
                    created = wr.add_variables(keys, name_prefix=op["prefix"], lb=lb_arg, ub=ub_arg, var_type=typ)
                    for kk, v in zip(keys, ids):
                        hv[v] = created[kk]
                elif k == "lin":
                    e = wr.quicksum(hv[v] * c for v, c in op["terms"])
                    if op["sense"] == "<=":
                        wr.add_constraint(e <= op["rhs"], name="lin%d" % i)
                    elif op["sense"] == ">=":
                        wr.add_constraint(e >= op["rhs"], name="lin%d" % i)
                    else:
                        wr.add_constraint(e == op["rhs"], name="lin%d" % i)
                    lins.append(([(v, c) for v, c in op["terms"]], op["sense"], op["rhs"]))
                elif k == "bin_prod":
                    wr.add_binary_continuous_product_constraint(hv[op["b"]], hv[op["c"]], hv[op["p"]], lb=op["lb"], ub=op["ub"], name="bp%d" % i)
                    rels.append({"kind": "prod", "a": op["b"], "c": op["c"], "p": op["p"]})
                elif k == "int_prod":
                    wr.add_integer_continuous_product_constraint(hv[op["i"]], hv[op["c"]], hv[op["p"]], lb=op["lb"], ub=op["ub"], name="ip%d" % i)
                    rels.append({"kind": "prod", "a": op["i"], "c": op["c"], "p": op["p"]})
                elif k == "pw":
                    wr.add_piecewise_constant_constraint(hv[op["x"]], hv[op["y"]], [tuple(r) for r in op["ranges"]], op["constants"], name_prefix="pw%d" % i)
                    rels.append({"kind": "pw", "x": op["x"], "y": op["y"], "ranges": op["ranges"], "constants": op["constants"]})
                elif k == "objective":
                    e = wr.quicksum(hv[v] * c for v, c in op["terms"]) + op.get("const", 0)
                    wr.set_objective(e, sense=op["sense"])
                    t = {}
                    for v, c in op["terms"]:
                        t[v] = t.get(v, 0) + c
                    obj = {"terms": t, "const": float(op.get("const", 0)), "sense": "min" if op["sense"] in ("minimize", "min") else "max"}
                elif k == "bad_objective":
                    e = wr.quicksum(hv[v] * c for v, c in op["terms"])
                    try:
                        wr.set_objective(e <= 1, sense=op["sense"])
                        V("inequality_accepted_as_objective", {}, i)
                    except Exception:
                        pass            # rejected, as documented; the model's objective and direction are those of before
                elif k == "set_attr":
                    setattr(wr, op["attr"], float("inf") if op["value"] == "inf" else op["value"])
                elif k == "queue_fix":
                    wr.queue_fix_variable(hv[op["v"]], op["val"])
                    pend_fix[op["v"]] = float(op["val"])
                    nbound += 1
                elif k == "queue_lb":
                    wr.queue_set_var_lower_bound(hv[op["v"]], op["val"])
                    pend_lb[op["v"]] = float(op["val"])
                    nbound += 1
                elif k == "fix":
                    wr.fix_variable(hv[op["v"]], op["val"])
                    bounds[op["v"]] = [float(op["val"]), float(op["val"])]
                    nbound += 1
                elif k == "optimize":
                    lp0 = wr.solver.getLp()
                    before = (list(lp0.col_lower_), list(lp0.col_upper_))
                    # reference: the queues are applied now ("in a later batch update"), the last request per variable wins
                    for v, val in pend_fix.items():
                        bounds[v] = [val, val]
                    for v, val in pend_lb.items():
                        bounds[v][0] = val
                    pend_fix.clear()
                    pend_lb.clear()
                    alarms0 = sim.fired.get("alarm_fired", 0)
                    wr.optimize()
                    alarm_fired = sim.fired.get("alarm_fired", 0) > alarms0
                    noptimize += 1
                    lp = wr.solver.getLp()
                    lo, up = list(lp.col_lower_), list(lp.col_upper_)
                    user_cols = {hv[v].index: v for v in hv}
                    for col in range(lp.num_col_):
                        if col in user_cols:
                            v = user_cols[col]
                            if abs(lo[col] - bounds[v][0]) > 1e-12 or abs(up[col] - bounds[v][1]) > 1e-12:
                                V("bounds_differ_from_requested", {"var": vars_[v]["name"], "expected": bounds[v], "got": [lo[col], up[col]]}, i)
                                break
                        elif lo[col] != before[0][col] or up[col] != before[1][col]:
                            V("untouched_column_bounds_changed", {"col": col, "before": [before[0][col], before[1][col]], "after": [lo[col], up[col]]}, i)
                            break
                    if wr._pending_fix_vars or wr._pending_lb_vars:
                        V("queue_not_cleared", {}, i)
                    # objective fully replaced
                    cost = list(lp.col_cost_)
                    exp_cost = [0.0] * lp.num_col_
                    for v, c in obj["terms"].items():
                        exp_cost[hv[v].index] += c
                    if any(abs(a - b) > 1e-12 for a, b in zip(cost, exp_cost)):
                        V("objective_not_replaced", {"expected": exp_cost, "got": cost}, i)
                    exp_sense = highspy.ObjSense.kMinimize if obj["sense"] == "min" else highspy.ObjSense.kMaximize
                    if lp.sense_ != exp_sense:
                        V("objective_sense", {"expected": obj["sense"]}, i)
                    if abs(lp.offset_ - obj["const"]) > 1e-12:
                        V("objective_offset", {"expected": obj["const"], "got": lp.offset_}, i)
                    status = wr.get_model_status()
                    last_status = status
                    est, ez = _brute(vars_, bounds, rels, lins, obj)
                    if alarm_fired:
                        # the extra signal timeout fired during this solve: the flag overrides the status
                        counters["custom_timeout_fired"] = counters.get("custom_timeout_fired", 0) + 1
                        if status != "kTimeLimit":
                            V("status_differs", {"got": status, "reference": "kTimeLimit (custom timeout fired)"}, i)
                    elif est != "unsupported":
                        counters["bruteforce:" + est] = counters.get("bruteforce:" + est, 0) + 1
                        if status != est:
                            V("status_differs", {"got": status, "reference": est, "bounds": bounds}, i)
                        elif est == "kOptimal":
                            z = wr.get_objective_value()
                            if abs(z - ez) > 1e-6 * max(1.0, abs(ez)):
                                V("optimum_differs", {"got": z, "reference": ez, "objective": obj, "bounds": {vars_[v]["name"]: b for v, b in bounds.items()}}, i)
                    else:
                        counters["bruteforce:unsupported"] = counters.get("bruteforce:unsupported", 0) + 1
                elif k == "get_values":
                    if last_status == "kOptimal":
                        ask = {("k", v): hv[v] for v in op["vars"]}
                        got = wr.get_values(ask)
                        allv = wr.get_all_variable_values()
                        if set(got.keys()) != set(ask.keys()):
                            V("get_values_keys", {"asked": len(ask), "got": len(got)}, i)
                        else:
                            for key, var in ask.items():
                                if got[key] != allv[var.index]:
                                    V("get_values_wrong_column", {"var": vars_[key[1]]["name"]}, i)
                                    break
                        # the older name-based getter: exactly the variables created under one prefix
                        xs = [v for v, d in enumerate(vars_) if d["name"] == "x"]
                        import warnings as _w
                        with _w.catch_warnings():
                            _w.simplefilter("ignore")
                            byname = wr.get_variable_values("x", [int])
                        exp_byname = {kk: allv[hv[v].index] for kk, v in enumerate(xs)}
                        if byname != exp_byname:
                            V("get_variable_values_by_prefix", {"got": str(byname)[:200], "expected": str(exp_byname)[:200]}, i)
                        bins = {v: hv[v] for v in op["vars"] if vars_[v]["type"] == "integer" and bounds[v][1] <= 1 and bounds[v][0] >= 0}
                        if bins:
                            gb = wr.get_values(bins, binary_values=True)
                            for v, x in gb.items():
                                if x not in (0, 1) or not isinstance(x, int) or x != round(allv[hv[v].index]):
                                    V("get_values_binary", {"var": vars_[v]["name"], "value": repr(x)}, i)
                                    break
            except W.Discard as e:
                return {"discard": str(e)}
            except Exception as e:
                import traceback
                V("exception", {"exc": type(e).__name__, "msg": str(e)[:200], "tb": traceback.format_exc()[-600:]}, i)
                break
    seen, uniq = set(), []
    for v in vs:
        if v.key not in seen:
            seen.add(v.key)
            uniq.append(dict(v))
    return {"violations": uniq, "digest": digest([world["ops"], [v["clause"] for v in uniq], sim.history.digest()]),
            "sig": digest(world["ops"]),
            "nontrivial": bool(world["relations"]) and nbound > 0 and noptimize >= 2,
            "fired": {k: v for k, v in sim.fired.items() if v}, "probes": {}, "sim_s": sim.sim_seconds, "invocations": len(sim.invocations),
            "counters": counters, "summary": {"ops": len(world["ops"]), "optimize_calls": noptimize, "bound_changes": nbound}}


def sample_view(spec, outcome):
    return {"vars": spec["world"]["vars"], "history": spec["world"]["ops"], "summary": outcome.get("summary")}


def shrink(spec):
    ops = spec["world"]["ops"]
    for i in range(len(ops) - 1, -1, -1):
        if ops[i]["op"] in ("lin", "queue_fix", "queue_lb", "fix", "objective", "get_values", "optimize", "set_attr", "bad_objective"):
            c = copy.deepcopy(spec)
            if ops[i]["op"] == "optimize":
                # faults are addressed by solver-invocation index = number of earlier optimize() calls
                n_before = sum(1 for o in ops[:i] if o["op"] == "optimize")
                nf = []
                for f in c["world"].get("faults") or []:
                    if f["at"] == n_before:
                        continue
                    nf.append(dict(f, at=f["at"] - 1) if f["at"] > n_before else f)
                c["world"]["faults"] = nf
            del c["world"]["ops"][i]
            yield c
