"""C18 - a model's result depends only on its own arguments; caller data is never mutated;
repeated solve()/getters agree.

Quantifier: call histories over caller-owned objects shared between models (graphs,
optimization_options / solver_options dicts, constraint / ignore lists, scaling dicts,
start/end lists, and the classes' mutable default arguments), with faults inside the history.
"""
import copy
import inspect
import random

from props import modelruns as mr
from sim import gen, models, simrun, refserver
from sim import world as W
from sim.core import H, Violation, digest, canon

ID = "C18"
LEVEL = "exploration"
BATCH = 4
QUICK_WORLDS = 432
THOROUGH_BUDGET_S = 900
RUN_TIMEOUT = 240
NEEDS_REFSERVER = True
RULE = ("world = a pool of caller-owned objects (1-2 graphs, 1-2 optimization_options dicts, solver_options, constraint list, ignore list, "
        "scaling dict, start/end lists) and a seeded history of 6-16 operations over it: construct(class, argument references or omitted = "
        "class default), solve, solve again, get_solution x2, get_objective_value x2, across all model classes; several models receive the "
        "same objects; faults inside the history: a solver status fault in one model's solve, a constructor that raises after touching "
        "shared state, an alternative optimum in an earlier model.  After every operation all pool objects and all mutable constructor "
        "defaults equal their pristine snapshot; every construct+solve is re-evaluated on pristine copies in a fresh fork of a pristine "
        "reference server (other hash seed, other id offset) and must agree on (exception class | solved, objective, number of routes); "
        "repeated getters / a second solve agree.  distinct = (class sequence, aliasing pattern, fault placement); non-trivial = at "
        "least two models shared an argument object and at least one of them was solved.")
COMPONENTS = {"real": ["all model classes, SolverWrapper, HiGHS", "reference server: separately exec'd interpreter, fresh fork per request"],
              "stub": ["status faults / alternative optimum inside the history", "virtual clock"], "not_run": ["gurobi"]}
ASSUMPTIONS = ["objectives are compared with 1e-6 relative tolerance; routes themselves may differ (alternative optima)"]

CLASSES_DAG = ["kFlowDecomp", "MinFlowDecomp", "kMinPathError", "kLeastAbsErrors", "kPathCover", "MinPathCover"]
CLASSES_CYC = ["kFlowDecompCycles", "MinFlowDecompCycles", "kMinPathErrorCycles", "kLeastAbsErrorsCycles", "kPathCoverCycles", "MinPathCoverCycles",
               "MinFlowDecompCycles"]      # the search with the most internal models (guessed weights, generating set) counts twice


def gen_world(seed, tier):
    rng = random.Random(H(seed, "c18"))
    pool = {}
    gd = gen.dag_layered(rng, max_nodes=5, max_edges=7, max_routes=3)
    gc = gen.digraph_cyclic(rng, max_nodes=4, max_edges=5, max_routes=2, wmax=4)
    use_cyc = rng.random() < 0.45
    pool["G0"] = {"type": "graph", "v": gd}
    if use_cyc:
        pool["G1"] = {"type": "graph", "v": gc}
    pool["G2"] = {"type": "graph", "v": gen.perturb(rng, gd)}       # a non-conserving weighting (for the flow-correction model)
    # node-weighted variants of the same graphs (flow_attr_origin="node"); drawn from their own stream
    rngn = random.Random(H(seed, "c18node"))
    pool["G3"] = {"type": "graph", "v": gen.node_weighted(rngn, gd)}
    if use_cyc:
        pool["G4"] = {"type": "graph", "v": gen.node_weighted(rngn, gc)}
    base_ = [rng.randint(1, 6) for _ in range(rng.randint(2, 3))]
    nums = sorted({sum(b for b in base_ if rng.random() < 0.6) or base_[0] for _ in range(4)})
    pool["nums0"] = {"type": "plain", "v": nums, "total": sum(base_)}
    pool["pc0"] = {"type": "plain", "v": [[base_[0], sum(base_[1:])]] if len(base_) > 1 else [[sum(base_)]]}
    uni = list(range(rng.randint(2, 5)))
    subs = [[u for u in uni if rng.random() < 0.5] or [uni[0]] for _ in range(rng.randint(2, 4))] + [list(uni)]
    pool["uni0"] = {"type": "plain", "v": uni}
    pool["subs0"] = {"type": "plain", "v": subs}
    pool["sw0"] = {"type": "plain", "v": [rng.choice([1, 2, 3]) for _ in subs]}
    pool["oo0"] = {"type": "dict", "v": {}}
    oo1 = {}
    for k in rng.sample(["optimize_with_safe_paths", "optimize_with_safe_zero_edges", "optimize_with_greedy", "optimize_with_safe_sequences",
                         "optimize_with_safety_as_subpath_constraints", "optimize_with_flow_safe_paths"], rng.randint(0, 2)):
        oo1[k] = rng.random() < 0.5
    if rng.random() < 0.35:
        oo1["optimize_with_safety_as_subpath_constraints"] = True
        oo1["optimize_with_greedy"] = False
    if oo1.get("optimize_with_safe_sequences"):
        oo1["optimize_with_safe_paths"] = False
        oo1["optimize_with_flow_safe_paths"] = False
    pool["oo1"] = {"type": "dict", "v": oo1}
    # options for the minimum searches (their lower-bound helpers build sub-models from the same dict)
    oo2 = {}
    for k in rng.sample(["use_subgraph_scanning_lowerbound", "use_min_gen_set_lowerbound", "optimize_with_guessed_weights", "optimize_with_greedy"], rng.randint(1, 3)):
        oo2[k] = True if k != "optimize_with_greedy" else False
    pool["oo2"] = {"type": "dict", "v": oo2}
    r4 = random.Random(H(seed, "c18oo3"))
    oo3 = {k_: True for k_ in r4.sample(["optimize_with_safe_sequences_fix_via_bounds", "optimize_with_safe_sequences_allow_geq_constraints",
                                         "optimize_with_safe_sequences_fix_zero_edges", "optimize_with_safety_as_subset_constraints"], r4.randint(1, 2))}
    if r4.random() < 0.5:
        oo3["optimize_with_safe_sequences_fix_via_bounds"] = True      # the route through the wrapper's queued bound updates
    pool["oo3"] = {"type": "dict", "v": oo3}
    so0 = {"threads": rng.choice([1, 2, 4])} if rng.random() < 0.5 else {}
    if rng.random() < 0.4:
        so0["time_limit"] = rng.choice([200, 3600])     # far above anything a whole search can need (<= ~10 solves x 10 s)
        if rng.random() < 0.3:
            so0["use_also_custom_timeout"] = True
    pool["so0"] = {"type": "dict", "v": so0}
    cons = gen.subpath_constraints(rng, gd, max_c=2)
    r6 = random.Random(H(seed, "c18consorder"))
    if cons and r6.random() < 0.3:
        # the constructor accepts a constraint whose edges are not listed in path order; it is caller data like any other
        cons = [list(reversed(c)) if len(c) > 1 else c for c in cons]
    pool["cons0"] = {"type": "constraints", "v": cons}
    pool["ign0"] = {"type": "edges", "v": [[e[0], e[1]] for e in gd["edges"] if rng.random() < 0.2][:1]}
    r5 = random.Random(H(seed, "c18r9"))
    # an ignore list for the node-weighted reading (nodes, not edges)
    inner_nodes = [x for x in gd["nodes"] if any(x in r_[1:-1] for r_ in gd["routes"])]
    pool["ignn0"] = {"type": "plain", "v": [r5.choice(inner_nodes)] if inner_nodes else []}
    # a noisy node-weighted reading (for the error models: with consistent weights every optimum is 0 and nothing shows)
    g6 = gen.node_weighted(r5, gd)
    if g6 is not None:
        for nw in g6["node_weights"]:
            if r5.random() < 0.4:
                nw[1] = max(0, nw[1] + r5.choice([-2, -1, 1, 2, 3]))
        pool["G6"] = {"type": "graph", "v": g6}
    # graphs carry whatever "id" the caller gave them; two different graphs may carry the same one
    if r5.random() < 0.5:
        gid = r5.choice(["simple_graph", "g", "graph number = 1"])
        g5 = gen.dag_layered(r5, max_nodes=5, max_edges=7, max_routes=3)
        g5["id"] = gid
        gd["id"] = gid
        pool["G5"] = {"type": "graph", "v": g5}
    e = rng.choice(gd["edges"])
    pool["es0"] = {"type": "scaling", "v": [[[e[0], e[1]], rng.choice([0.5, 1, 0])]]}
    nroutes = len(gd["routes"])
    ops = []
    nmodels = rng.randint(2, 5)
    h = 0
    prev_generic = None
    for m in range(nmodels):
        cyc = use_cyc and rng.random() < 0.45
        cname = rng.choice(CLASSES_CYC if cyc else CLASSES_DAG)
        if rng.random() < 0.1:
            cname = "MinErrorFlow"            # accepts any digraph
        elif rng.random() < 0.12:
            # the models without a graph, and the generic number-of-paths optimiser
            cname = rng.choice(["MinGenSet", "MinSetCover", "NumPathsOptimization"])
            if cname == "MinGenSet":
                args = {"numbers": "@nums0", "total": pool["nums0"]["total"], "weight_type": rng.choice(["int", "float"])}
                if rng.random() < 0.5:
                    args["solver_options"] = "@so0"
                if rng.random() < 0.3:
                    args["partition_constraints"] = "@pc0"
            elif cname == "MinSetCover":
                args = {"universe": "@uni0", "subsets": "@subs0"}
                if rng.random() < 0.6:
                    args["subset_weights"] = "@sw0"
                if rng.random() < 0.5:
                    args["solver_options"] = "@so0"
            else:
                args = {"G": "@G2", "model_type": rng.choice(["kMinPathError", "kLeastAbsErrors"]), "stop_on_first_feasible": True,
                        "min_num_paths": 1, "max_num_paths": 4, "weight_type": rng.choice(["int", "float"])}
                if rng.random() < 0.5:
                    args["optimization_options"] = "@" + rng.choice(["oo0", "oo1"])
                if rng.random() < 0.5:
                    args["solver_options"] = "@so0"
                if cname == "NumPathsOptimization" and r5.random() < 0.5:
                    args["time_limit"] = r5.choice([100, 1000])         # the optimiser's own overall budget
            ops.append({"op": "construct", "h": h, "class": cname, "args": args})
            for s_ in ["solve"] + rng.sample(["get_solution", "get_solution", "solve", "get_objective_value"], rng.randint(1, 3)):
                if s_ == "get_objective_value" and cname in ("MinGenSet", "MinSetCover"):
                    continue
                ops.append({"op": s_, "h": h})
            h += 1
            continue
        gname = "G1" if cyc else "G0"
        g = gc if cyc else gd
        if cyc and cname != "MinErrorFlow" and rngn.random() < 0.3:
            gname, g = "G0", gd               # the walk models accept any digraph, also an acyclic one
        args = {"G": "@" + gname}
        if cname == "MinErrorFlow":
            if not cyc:
                args["G"] = "@G2"
            args["weight_type"] = rng.choice(["int", "float"])
            if rng.random() < 0.6:
                args["few_flow_values_epsilon"] = rng.choice([0.1, 0.5, 1.0])
            if rng.random() < 0.5:
                args["solver_options"] = "@so0"
            if not cyc and rng.random() < 0.3:
                args["error_scaling"] = "@es0"
            ops.append({"op": "construct", "h": h, "class": cname, "args": args})
            for s_ in ["solve"] + rng.sample(["get_solution", "get_solution", "get_objective_value", "solve", "solve"], rng.randint(1, 4)):
                ops.append({"op": s_, "h": h})
            h += 1
            continue
        if not cyc and cname in ("kMinPathError", "kLeastAbsErrors") and r5.random() < 0.4:
            args["G"] = "@G2"          # a non-conserving weighting: the error models have something to minimise
        if cname.startswith("k"):
            args["k"] = max(1, len(g["routes"]) + rng.choice([0, 0, 1, -1]))
        if cname not in models.COVER_CLASSES:
            args["weight_type"] = rng.choice(["int", "float"])
        r = rng.random()
        if cname in ("MinFlowDecomp", "MinFlowDecompCycles", "kFlowDecomp") and rng.random() < (0.7 if cname.startswith("Min") else 0.5):
            args["optimization_options"] = "@oo2"
        elif r < 0.55:
            args["optimization_options"] = "@" + rng.choice(["oo0", "oo0", "oo1"])
        elif r < 0.7:
            args["optimization_options"] = {}
        if rng.random() < 0.5:
            args["solver_options"] = "@so0"
        if not cyc and rng.random() < 0.3 and cons:
            args["subpath_constraints"] = "@cons0"
        if not cyc and rng.random() < 0.2 and pool["ign0"]["v"]:
            args["elements_to_ignore"] = "@ign0"
        if not cyc and cname in ("kMinPathError", "kLeastAbsErrors") and rng.random() < 0.3:
            args["error_scaling"] = "@es0"
        if cname in ("kFlowDecomp", "kMinPathError", "kLeastAbsErrors") and rng.random() < 0.3:
            args["solution_weights_superset"] = list(gd["weights"]) + [rng.randint(1, 4)]
        if rng.random() < 0.08:
            args["k"] = 0                       # a constructor that raises (after touching shared state?)
        if not cyc and "G5" in pool and cname in ("kFlowDecomp", "MinFlowDecomp", "kPathCover", "MinPathCover") and r5.random() < 0.4:
            args["G"] = "@G5"          # another graph with the same id as G0
            gname = "G5"
            for a_ in ("subpath_constraints", "elements_to_ignore", "error_scaling", "solution_weights_superset"):
                args.pop(a_, None)
            if "k" in args and args["k"]:
                args["k"] = max(1, len(pool["G5"]["v"]["routes"]) + r5.choice([0, 1]))
        if cname in models.CYCLIC_CLASSES and rngn.random() < 0.5:
            args["optimization_options"] = "@oo3"       # the walk models' own options (fixing via bounds, >= rows, ...)
        if cname not in models.COVER_CLASSES and rngn.random() < (0.5 if cname == "MinFlowDecompCycles" else 0.25):
            # the node-weighted reading of the same graph (the model expands nodes internally and condenses the routes again)
            args["G"] = "@G4" if gname == "G1" else "@G3"
            args["flow_attr_origin"] = "node"
            for a_ in ("subpath_constraints", "elements_to_ignore", "error_scaling", "solution_weights_superset"):
                args.pop(a_, None)
            if args["G"] == "@G3" and "G6" in pool and cname in ("kMinPathError", "kLeastAbsErrors") and r5.random() < 0.6:
                args["G"] = "@G6"
            if args["G"] in ("@G3", "@G6") and pool["ignn0"]["v"] and r5.random() < (0.5 if args["G"] == "@G6" else 0.35):
                args["elements_to_ignore"] = "@ignn0"           # nodes to ignore, in the node-weighted reading
        if prev_generic is not None and r5.random() < 0.2:
            # a second model of the same kind on the same graph object, with nothing but the basic arguments: whatever the
            # first one left behind on that object (or in a cache keyed by it) shows here
            cname = prev_generic[0]
            args = {k_: v_ for k_, v_ in prev_generic[1].items() if k_ in ("G", "k", "weight_type", "flow_attr_origin")}
            if args.get("k") == 0:
                args["k"] = 1
        prev_generic = (cname, dict(args))
        ops.append({"op": "construct", "h": h, "class": cname, "args": args})
        seq = ["solve"] + rng.sample(["get_solution", "get_solution", "get_objective_value", "get_objective_value", "solve", "solve", "is_valid_solution"], rng.randint(1, 4))
        if cname.startswith("Min") and rng.random() < 0.3:
            seq = ["get_lowerbound_k"] + seq
        long_pause_before = None
        own_limit = None
        if cname in ("MinFlowDecomp", "MinFlowDecompCycles", "MinPathCover", "MinPathCoverCycles") and rngn.random() < 0.3:
            # the minimum searches keep a clock of their own: give the model a private budget and use it again much later
            own_limit = rngn.choice([200, 3600])
            args["solver_options"] = {"time_limit": own_limit}
        if own_limit is not None or ("time_limit" in so0 and args.get("solver_options") == "@so0" and rng.random() < 0.6):
            # a budgeted model that is used again after more wall time than its whole budget has passed
            seq = seq + ["solve"]
            long_pause_before = len(seq) - 1
            if cname in ("MinFlowDecomp", "kFlowDecomp") and rng.random() < 0.7:
                args["optimization_options"] = {"optimize_with_greedy": False}      # so that the solver is really used
        for si, s in enumerate(seq):
            if si == long_pause_before:
                # ... or after almost all of it has passed
                fr = rng.choice([2, 10, 0.97, 0.99, 0.999, 0.99999])
                lim_ = own_limit if own_limit is not None else so0["time_limit"]
                if fr > 1:
                    ops.append({"op": "pause", "h": h, "seconds": lim_ * fr})
                else:
                    # measured from this model's first use, as a wall clock started then would see it
                    ops.append({"op": "pause", "h": h, "seconds": 0, "until_fraction_of_limit": fr, "limit": lim_})
            if rng.random() < 0.25 and long_pause_before is None:
                # the caller does something else for a while: (virtual) wall time passes between two calls
                ops.append({"op": "pause", "h": h, "seconds": rng.choice([30, 100, 1000, 5000, 20000])})
            ops.append({"op": s, "h": h})
        h += 1
    # a model that is constructed, then left alone while the next one is constructed and used, then solved
    hs = sorted({o["h"] for o in ops})
    for a_, b_ in zip(hs[:-1], hs[1:]):
        if r4.random() < 0.4:
            later = [o for o in ops if o["h"] == a_ and o["op"] != "construct"]
            rest = [o for o in ops if not (o["h"] == a_ and o["op"] != "construct")]
            last_b = max(i for i, o in enumerate(rest) if o["h"] == b_)
            ops = rest[:last_b + 1] + later + rest[last_b + 1:]
    # interleave a little: move some getter ops of earlier models to the end
    tail = [o for o in ops if o["op"] in ("get_solution", "get_objective_value") and rng.random() < 0.3]
    ops = [o for o in ops if o not in tail] + tail
    sim = {"latency": rng.choice(["instant", "instant", "realistic"]), "reply": rng.choice(["canonical", "canonical", "alt"]),
           "reply_seed": rng.randrange(1 << 30), "faults": []}
    if rng.random() < 0.35:
        sim["faults"] = [{"at": rng.randrange(0, 4), "kind": rng.choice(["interrupt", "time_limit_with_incumbent", "time_limit_no_incumbent", "exception"])}]
    if any(o.get("until_fraction_of_limit") for o in ops) and rngn.random() < 0.7:
        # a budget that is almost used up only bites when solving takes time: realistic solver latencies (1 ms .. 10 s)
        sim["latency"] = "realistic"
    return {"pool": pool, "ops": ops, "sim": sim,
            "knobs": {"subgraph_lowerbound_size": rng.choice([2, 3]), "subgraph_lowerbound_shift": rng.choice([1, 2])}}


def plans(world, info, seed, tier):
    return [{"world": world}]


# --------------------------------------------------------------------------

def _decode_pool(pool):
    out = {}
    for name, p in pool.items():
        v = copy.deepcopy(p["v"])
        if p["type"] == "graph":
            out[name] = gen.to_nx(v, "flow")
        elif p["type"] == "constraints":
            out[name] = [[tuple(e) for e in c] for c in v]
        elif p["type"] == "edges":
            out[name] = [tuple(e) for e in v]
        elif p["type"] == "scaling":
            out[name] = {tuple(e): s for e, s in v}
        else:
            out[name] = v
    return out


def _snap(obj):
    import networkx as nx
    if isinstance(obj, nx.DiGraph):
        return canon({"nodes": sorted((n, canon(d)) for n, d in obj.nodes(data=True)),
                      "edges": sorted((u, v, canon(d)) for u, v, d in obj.edges(data=True)),
                      "graph": canon(dict(obj.graph)), "frozen": nx.is_frozen(obj)})
    return canon(obj) if not isinstance(obj, (set, frozenset)) else ["set"] + canon(obj)


def _kwargs(op, pool_objs):
    raw = {k: v for k, v in op["args"].items() if not (isinstance(v, str) and v.startswith("@"))}
    kw = models.decode_args(raw)
    for k, v in op["args"].items():
        if isinstance(v, str) and v.startswith("@"):
            kw[k] = pool_objs[v[1:]]
    return kw


def _construct(cname, kw):
    cls = models.cls_of(cname)
    kw = dict(kw)
    if cname in ("MinGenSet", "MinSetCover"):
        return cls(**kw)
    if cname == "NumPathsOptimization":
        G = kw.pop("G")
        mt = kw.pop("model_type")
        return cls(model_type=mt if not isinstance(mt, str) else models.cls_of(mt), G=G, flow_attr="flow", **kw)
    G = kw.pop("G")
    if cname in models.COVER_CLASSES:
        return cls(G, **kw)
    return cls(G, flow_attr="flow", **kw)


def _defaults_snapshot():
    import flowpaths as fp
    snap = {}
    for name in dir(fp):
        c = getattr(fp, name)
        if inspect.isclass(c) and c.__module__.startswith("flowpaths"):
            init = c.__init__
            d = getattr(init, "__defaults__", None) or ()
            for i, x in enumerate(d):
                if isinstance(x, (dict, list, set)):
                    snap["%s.%d" % (name, i)] = _snap(x)
    return snap


def _summ_solution(cname, sol):
    if cname == "MinGenSet" and isinstance(sol, list):
        return len(sol)
    if cname == "MinSetCover":
        return None          # covers of equal (minimum) weight may differ in the number of subsets
    if cname == "MinErrorFlow" and isinstance(sol, dict):
        # no routes; which optimal correction comes back may differ between two solves (alternative optima), its error may not
        return None
    if isinstance(sol, dict):
        key = "walks" if cname in models.CYCLIC_CLASSES else "paths"
        r = sol.get(key)
        return len(r) if r is not None else None
    return None


def _objective_of(cname, op_args, m):
    """The quantity the model minimised.  MinErrorFlow.get_objective_value() is the unscaled sum of corrections; with an
    error_scaling argument the minimised quantity is the scaled sum, and optimal corrections differ in their unscaled sum
    (seen: 3.5 vs 3.125 under an alternative optimum) - there the solver objective of the solution is the determined value."""
    if cname == "MinSetCover":
        return canon(sum(m.subset_weights[i_] for i_ in m.get_solution()))
    if cname == "MinErrorFlow" and op_args.get("error_scaling") is not None:
        return canon(m.get_solution()["objective_value"])
    return canon(m.get_objective_value()) if hasattr(m, "get_objective_value") else None


def _same_obj(cname, args, a, b):
    """MinErrorFlow with few_flow_values_epsilon reports the error of *a* flow within (1+eps) of the optimum:
    two admissible answers (another optimum of the second phase) may differ by that factor."""
    eps = args.get("few_flow_values_epsilon") if cname == "MinErrorFlow" else None
    if eps:
        try:
            a_, b_ = float(a), float(b)
            return a_ <= (1 + eps) * b_ + 1e-6 and b_ <= (1 + eps) * a_ + 1e-6
        except Exception:
            return a == b
    return _close(a, b)


def _close(a, b):
    try:
        return abs(float(a) - float(b)) <= 1e-6 * max(1.0, abs(float(a)), abs(float(b)))
    except Exception:
        return a == b


def _apply_knobs(knobs):
    # tuning constants lowered so that the subgraph-scanning code runs on tiny graphs
    import flowpaths as fp
    for k, v in (knobs or {}).items():
        setattr(fp.MinFlowDecomp, k, v)


def isolated_eval(payload):
    """Runs in a fresh fork of the pristine reference server."""
    _apply_knobs(payload.get("knobs"))
    pool_objs = _decode_pool(payload["pool"])
    op = payload["op"]
    cfg = {"latency": "instant", "reply": "canonical", "faults": []}
    cfg.update(payload.get("native") or {})
    w = W.SimWorld(1, cfg, id_offset=5_000_000)
    res = {"exc": None, "solved": None, "objective": None, "routes": None}
    with W.active(w):
        try:
            m = _construct(op["class"], _kwargs(op, pool_objs))
        except Exception as e:
            res["exc"] = "construct:" + type(e).__name__
            return res
        try:
            m.solve()
            res["solved"] = bool(m.is_solved())
            if res["solved"]:
                res["objective"] = _objective_of(op["class"], op["args"], m)
                res["routes"] = _summ_solution(op["class"], m.get_solution())
        except SystemExit:
            res["exc"] = "solve:SystemExit"
        except Exception as e:
            res["exc"] = "solve:" + type(e).__name__
    return res


def execute(spec):
    """The isolated re-evaluation uses canonical replies.  If the history ran under an 'alt' reply and a
    result_depends_on_history difference shows up, the history is re-run with canonical replies: what then disappears
    depended on which optimum the solver delivered (e.g. a generating set containing 4e-10, whose use as a coefficient
    HiGHS refuses), not on the history."""
    res = _execute(spec)
    if spec["world"]["sim"].get("reply", "canonical") != "canonical" and any(
            v["clause"] == "C18.result_depends_on_history" for v in res.get("violations", [])):
        s2 = copy.deepcopy(spec)
        s2["world"]["sim"]["reply"] = "canonical"
        res2 = _execute(s2)
        if "violations" in res2:
            keep = {(v["clause"], v["fingerprint"]) for v in res2["violations"] if v["clause"] == "C18.result_depends_on_history"}
            before = len(res["violations"])
            res["violations"] = [v for v in res["violations"] if v["clause"] != "C18.result_depends_on_history" or (v["clause"], v["fingerprint"]) in keep]
            if len(res["violations"]) < before:
                res["counters"]["reply_dependent_difference_dismissed"] = 1
    return res


def _execute(spec):
    world = spec["world"]
    vs = []
    counters = {}

    def V(clause, fp_, detail):
        vs.append(Violation(ID, "C18." + clause, fp_, detail))
    # isolated re-evaluation first (pristine server, other hash seed)
    iso = {}
    for op in world["ops"]:
        if op["op"] == "construct":
            try:
                iso[op["h"]] = refserver.evaluate({"module": "props.c18", "fn": "isolated_eval", "timeout": 100,
                                                   "payload": {"pool": world["pool"], "op": op, "knobs": world.get("knobs")}})
            except Exception as e:
                return {"harness_error": "reference server: %r" % (e,)}
            if "harness_error" in iso[op["h"]] or "discard" in iso[op["h"]]:
                return {"discard": "reference evaluation unusable: %s" % str(iso[op["h"]])[:200]}
    sim = W.SimWorld(H(world["sim"]["reply_seed"], "c18"), world["sim"])
    _apply_knobs(world.get("knobs"))
    pool_objs = _decode_pool(world["pool"])
    pristine = {k: _snap(v) for k, v in pool_objs.items()}
    handles = {}
    first_use = {}
    info = {}
    shared_use = {}
    solved_any = False
    try:
        with W.active(sim):
            d0 = _defaults_snapshot()

            def check_state(i, op):
                for k, v in pool_objs.items():
                    if _snap(v) != pristine[k]:
                        cname = info.get(op.get("h"), {}).get("class", "?")
                        V("caller_object_mutated", cname, {"object": k, "type": world["pool"][k]["type"], "after_op": op, "index": i,
                                                           "before": pristine[k] if world["pool"][k]["type"] != "graph" else "graph",
                                                           "after": _snap(v) if world["pool"][k]["type"] != "graph" else "graph"})
                        pristine[k] = _snap(v)      # report once per change
                d1 = _defaults_snapshot()
                if d1 != d0:
                    changed = [k for k in d1 if d1[k] != d0.get(k)]
                    V("default_argument_mutated", info.get(op.get("h"), {}).get("class", "?"), {"defaults": changed, "after_op": op})
                    d0.update(d1)
            for i, op in enumerate(world["ops"]):
                h = op["h"]
                k = op["op"]
                counters["op:" + k] = counters.get("op:" + k, 0) + 1
                if k == "pause":
                    if op.get("until_fraction_of_limit") and h in first_use:
                        target = first_use[h] + op["until_fraction_of_limit"] * op["limit"]
                        sim.advance(max(0.0, target - sim.now))
                    sim.advance(float(op["seconds"]))
                    sim.history.add("pause", seconds=op["seconds"])
                    continue
                if k == "construct":
                    info[h] = {"class": op["class"], "inv0": sim.inv, "exc": None, "solves": [], "sols": [], "objs": [], "op_args": op["args"],
                               "args": {k_: v_ for k_, v_ in op["args"].items() if not isinstance(v_, str)}}
                    for a, v in op["args"].items():
                        if isinstance(v, str) and v.startswith("@"):
                            shared_use.setdefault(v, set()).add(h)
                    try:
                        handles[h] = _construct(op["class"], _kwargs(op, pool_objs))
                    except W.Discard:
                        raise
                    except Exception as e:
                        info[h]["exc"] = "construct:" + type(e).__name__
                elif h in handles:
                    m = handles[h]
                    I = info[h]
                    if k in ("solve", "get_lowerbound_k"):
                        first_use.setdefault(h, sim.now)
                    try:
                        if k == "solve":
                            a = sim.inv
                            # only injected faults excuse a difference: running out of the time budget is the library's own
                            # doing (budgets here are far above what the solves need)
                            injected = lambda: sum(v for kf, v in sim.fired.items() if kf not in ("budget_exhausted", "alarm_fired"))
                            f0 = injected()
                            ret = m.solve()
                            st = bool(m.is_solved())
                            ob = _objective_of(I["class"], I["op_args"], m) if st else None      # the minimised quantity
                            nr = _summ_solution(op["class"] if "class" in op else I["class"], m.get_solution()) if st else None
                            I["solves"].append({"solved": st, "objective": ob, "routes": nr, "faulted": injected() > f0, "inv": [a, sim.inv], "returned": None if ret is None else bool(ret)})
                            # a re-solve may legitimately deliver another optimum: getters are compared between solves only
                            I["sols"].append(None)
                            I["objs"].append(None)
                            solved_any = solved_any or st
                        elif k == "get_solution":
                            if m.is_solved():
                                I["sols"].append(models._sol_json(m.get_solution()))
                        elif k == "get_objective_value":
                            if m.is_solved():
                                I["objs"].append(canon(m.get_objective_value()))
                        elif k == "get_lowerbound_k":
                            m.get_lowerbound_k()
                        elif k == "is_valid_solution":
                            if m.is_solved():
                                m.is_valid_solution()
                    except W.Discard:
                        raise
                    except SystemExit:
                        I.setdefault("op_exc", []).append([k, "SystemExit"])
                    except Exception as e:
                        I.setdefault("op_exc", []).append([k, type(e).__name__])
                        if k == "solve":
                            I["solves"].append({"exc": "solve:" + type(e).__name__, "faulted": injected() > f0})
                check_state(i, op)
    except W.Discard as e:
        return {"discard": str(e)}
    # (b) isolation reference and (c) repeatability
    for h, I in info.items():
        ref = iso.get(h, {})
        cname = I["class"]
        if I["exc"] or ref.get("exc", "") and str(ref.get("exc")).startswith("construct"):
            if (I["exc"] or None) != (ref.get("exc") if str(ref.get("exc")).startswith("construct") else None):
                V("result_depends_on_history", cname, {"in_history": I["exc"], "isolated": ref})
            continue
        # every solve() that ran without an injected fault - the first one, and also one that follows a faulted solve of the
        # same model - must give what the arguments alone determine (the isolated evaluation)
        reported = False
        for first in I["solves"]:
            if reported or first.get("faulted"):
                continue
            nv0 = len(vs)
            if "exc" in first:
                if first["exc"] != ref.get("exc"):
                    V("result_depends_on_history", cname, {"in_history": first, "isolated": ref})
            elif ref.get("exc"):
                V("result_depends_on_history", cname, {"in_history": first, "isolated": ref})
            else:
                if first["solved"] != ref["solved"] or (first["solved"] and (not _same_obj(cname, I.get("args", {}), first["objective"], ref["objective"]) or
                                                                               (first["routes"] != ref["routes"] and cname.startswith("k") is False))):
                    # solver-truthfulness cross-check: does the isolated evaluation itself give another answer under
                    # other native solver configurations?  then the difference is the solver's, not the history's
                    from sim import crosscheck
                    op_ = [o for o in world["ops"] if o["op"] == "construct" and o["h"] == h][0]
                    alts = []
                    for c in crosscheck.CONFIGS[1:]:
                        try:
                            alts.append(refserver.evaluate({"module": "props.c18", "fn": "isolated_eval", "timeout": 100,
                                                            "payload": {"pool": world["pool"], "op": op_, "knobs": world.get("knobs"), "native": c}}))
                        except Exception:
                            pass
                    stable = all((a.get("solved") == ref.get("solved") and _close(a.get("objective"), ref.get("objective")) and a.get("routes") == ref.get("routes")) for a in alts)
                    if stable:
                        V("result_depends_on_history", cname, {"in_history": first, "isolated": ref})
                    else:
                        counters["solver_not_truthful_discrepancy_dismissed"] = counters.get("solver_not_truthful_discrepancy_dismissed", 0) + 1
            reported = len(vs) > nv0
        clean = [s for s in I["solves"] if not s.get("faulted") and "exc" not in s]
        for a, b in zip(clean[:-1], clean[1:]):
            if a["solved"] != b["solved"] or not _same_obj(cname, I.get("args", {}), a["objective"], b["objective"]) or a["routes"] != b["routes"] or a.get("returned") != b.get("returned"):
                V("second_solve_differs", cname, {"first": a, "second": b})
                break
        if not any(s.get("faulted") for s in I["solves"]):
            for a, b in zip(I["sols"][:-1], I["sols"][1:]):
                if a is not None and b is not None and a != b:
                    V("get_solution_not_repeatable", cname, {"first": a, "second": b})
                    break
            for a, b in zip(I["objs"][:-1], I["objs"][1:]):
                if a is not None and b is not None and a != b:
                    V("get_objective_value_not_repeatable", cname, {"first": a, "second": b})
                    break
    seen, uniq = set(), []
    for v in vs:
        if v.key not in seen:
            seen.add(v.key)
            uniq.append(dict(v))
    aliased = any(len(hs) >= 2 for hs in shared_use.values())
    for h, I in info.items():
        counters["class:" + I["class"]] = counters.get("class:" + I["class"], 0) + 1
    sig = digest([[I["class"] for I in info.values()], sorted((k, sorted(v)) for k, v in shared_use.items()), world["sim"]["faults"]])
    return {"violations": uniq, "digest": digest([sim.history.digest(), [(h, I["solves"], I["exc"]) for h, I in sorted(info.items())]]),
            "sig": sig, "nontrivial": bool(aliased and solved_any),
            "fired": dict(sim.fired), "probes": dict(sim.probes, aliased_history=1 if aliased else 0),
            "sim_s": sim.sim_seconds, "invocations": len(sim.invocations), "counters": counters,
            "summary": {"models": [[h, I["class"], I["exc"], I["solves"][:2]] for h, I in sorted(info.items())], "isolated": iso}}


def sample_view(spec, outcome):
    w = spec["world"]
    return {"pool": {k: (v["v"] if v["type"] != "graph" else v["v"]["edges"]) for k, v in w["pool"].items()},
            "history": w["ops"], "sim": w["sim"], "summary": outcome.get("summary")}


def shrink(spec):
    w = spec["world"]
    hs = sorted({o["h"] for o in w["ops"]})
    if len(hs) > 1:
        for h in hs:
            c = copy.deepcopy(spec)
            c["world"]["ops"] = [o for o in w["ops"] if o["h"] != h]
            yield c
    for i, o in enumerate(w["ops"]):
        if o["op"] != "construct":
            c = copy.deepcopy(spec)
            del c["world"]["ops"][i]
            yield c
    for i, o in enumerate(w["ops"]):
        if o["op"] == "pause" and o["seconds"] > 30:
            c = copy.deepcopy(spec)
            c["world"]["ops"][i]["seconds"] = 30
            yield c
    if w["sim"]["faults"]:
        c = copy.deepcopy(spec); c["world"]["sim"]["faults"] = []; yield c
    if w["sim"]["reply"] != "canonical":
        c = copy.deepcopy(spec); c["world"]["sim"]["reply"] = "canonical"; yield c
    for i, o in enumerate(w["ops"]):
        if o["op"] == "construct":
            for a in list(o["args"].keys()):
                if a not in ("G", "k", "weight_type"):
                    c = copy.deepcopy(spec)
                    del c["world"]["ops"][i]["args"][a]
                    yield c
