"""Solver-truthfulness cross-check.

The differential oracles (C05, C10 monitors, C13, C18) compare objectives of two runs and
trust HiGHS's 'kOptimal'.  On float models with big-M rows HiGHS occasionally reports a
sub-optimal incumbent as optimal (gap 0), depending on its random seed and presolve
(observed: 0.125 vs 0.10725 on one kMinPathErrorCycles instance for seeds 0/2 vs 1/3).
Before an objective or solvability difference is reported, both sides are therefore re-solved
under several native solver configurations; a difference counts only if it survives when each
side is represented by its best (for minimisation: smallest) objective over those
configurations, and by 'solved in any configuration' for solvability."""

CONFIGS = [{"native_seed": 0}, {"native_seed": 1}, {"native_seed": 2, "native_presolve": "off"}, {"native_seed": 3, "native_presolve": "off"}]


def best_over_configs(run_fn, simcfg):
    """run_fn(simcfg) -> (solved: bool, objective or None, error or None).
    Returns (solved_any, best_objective, per-config list)."""
    res = []
    for c in CONFIGS:
        cfg = dict(simcfg)
        cfg.update(c)
        cfg["faults"] = []
        cfg["reply"] = "canonical"
        try:
            res.append(run_fn(cfg))
        except Exception as e:     # a cross-check that cannot run confirms nothing
            res.append((False, None, type(e).__name__))
    solved = [r for r in res if r[0] and r[1] is not None]
    best = None
    for r in solved:
        try:
            v = float(r[1])
        except Exception:
            continue
        if best is None or v < best:
            best = v
    return bool(solved), best, res


def close(a, b, rel=1e-6):
    try:
        return abs(float(a) - float(b)) <= rel * max(1.0, abs(float(a)), abs(float(b)))
    except Exception:
        return a == b
