"""Sensitivity self-test (DESIGN.md 2.13): scratch mutants of the library, each applied to a
throw-away copy outside /repo and /verif, must be reported by the matching check within the
quick budget.  Usage: tools/mutants.py [name ...]"""
import json, os, shutil, subprocess, sys, time

V = os.path.dirname(os.path.dirname(os.path.abspath(__file__)))
REPO = os.environ.get("MUT_BASE", "/repo")

M = [
 # name, property, file, old, new
 ("mfd_skip_inconclusive", "C13", "flowpaths/minflowdecomp.py",
  "            elif fd_model.solver.get_model_status() != sw.SolverWrapper.infeasible_status:\n", "            elif False:\n"),
 ("mpc_skip_inconclusive", "C13", "flowpaths/minpathcover.py",
  "            elif model.solver.get_model_status() != sw.SolverWrapper.infeasible_status:\n", "            elif False:\n"),
 ("drop_alarm_zero", "C13", "flowpaths/utils/solverwrapper.py",
  "                signal.alarm(0)  # Disable alarm after execution\n", "                pass\n"),
 ("status_optimal_or_timelimit", "C13", "flowpaths/abstractpathmodeldag.py",
  '            self.solver.get_model_status() == "kOptimal"\n', '            self.solver.get_model_status() in ("kOptimal", "kTimeLimit")\n'),
 ("walk_solved_on_interrupt", "C13", "flowpaths/abstractwalkmodeldigraph.py",
  '        if self.solver.get_model_status() == "kOptimal" or self.solver.get_model_status() == 2:', '        if self.solver.get_model_status() in ("kOptimal", "kInterrupt") or self.solver.get_model_status() == 2:'),
 ("shared_pool", "C06", "flowpaths/utils/safetypathcovers.py",
  "    adj_dict_pool = [deepcopy(adj_dict) for _ in range(threads)]\n    adj_dict_rev_pool = [deepcopy(adj_dict_rev) for _ in range(threads)]\n",
  "    adj_dict_pool = [adj_dict for _ in range(threads)]\n    adj_dict_rev_pool = [adj_dict_rev for _ in range(threads)]\n"),
 ("no_worker_lock", "C06", "flowpaths/utils/safetypathcovers.py",
  "            with worker_locks[worker_id]:\n", "            if True:\n"),
 ("path_strip_source_only", "C01", "flowpaths/abstractpathmodeldag.py",
  "                paths.append(path[1:-1])\n", "                paths.append(path[1:])\n"),
 ("walk_keep_sink", "C01", "flowpaths/abstractwalkmodeldigraph.py",
  "            return walk[1:-1]\n", "            return walk[1:]\n"),
 ("coverage_drops_length", "C10", "flowpaths/abstractpathmodeldag.py",
  "                            >= constraint_length * coverage_fraction\n                            * self.subpaths_vars[(i, j)],\n                            name=f\"7a_i={i}_j={j}\",\n                        )\n                    else:",
  "                            >= coverage_fraction\n                            * self.subpaths_vars[(i, j)],\n                            name=f\"7a_i={i}_j={j}\",\n                        )\n                    else:"),
 ("subset_sum_over_layers", "C10", "flowpaths/abstractwalkmodeldigraph.py",
  "                    self.solver.quicksum(self.edge_used_vars[(e[0], e[1], i)] for e in constraint_as_set)\n",
  "                    self.solver.quicksum(self.edge_used_vars[(e[0], e[1], ii)] for e in constraint_as_set for ii in range(self.k))\n"),
 ("reach_cache_shared", "C17", "flowpaths/stdigraph.py",
  "        self._nodes_reaching_node_cache[node] = result\n", "        self._nodes_reachable_from_node_cache[node] = result\n        self._nodes_reaching_node_cache[node] = result\n"),
 ("width_cache_ignores_ignore", "C17", "flowpaths/stdag.py",
  "        if self.width is not None and (edges_to_ignore is None or len(edges_to_ignore) == 0):\n            return self.width\n",
  "        if self.width is not None:\n            return self.width\n"),
 ("weights_int_truncate", "C02", "flowpaths/kflowdecomp.py",
  "                round(weights_sol_dict[i])\n                if self.weight_type == int", "                int(weights_sol_dict[i])\n                if self.weight_type == int"),
 ("accept_two_tokens", "C20", "flowpaths/utils/graphutils.py",
  "        if len(elements) != 3:\n", "        if len(elements) == 2:\n            elements = elements + ['1']\n        if len(elements) != 3:\n"),
 ("constraint_dedup_by_set", "C20", "flowpaths/utils/graphutils.py",
  "                seq_key = tuple(nodes_seq)\n", "                seq_key = tuple(sorted(nodes_seq))\n"),
 ("hierholzer_splice_drops_return", "C14", "flowpaths/abstractwalkmodeldigraph.py",
  "                walk[closed_walk_start_idx + 1:closed_walk_start_idx + 1] = closed_walk[1:]\n", "                walk[closed_walk_start_idx + 1:closed_walk_start_idx + 1] = closed_walk[1:-1]\n"),
 ("residual_truncates", "C14", "flowpaths/abstractwalkmodeldigraph.py",
  "                multiplicity = round(self.edge_vars_sol[edge_key])\n", "                multiplicity = int(self.edge_vars_sol[edge_key])\n"),
 ("mccormick_drop_d", "C12", "flowpaths/utils/solverwrapper.py",
  '        self.add_constraint(product_var >= continuous_var - ub * (1 - binary_var), name=name + "_d")\n', ""),
 ("objective_not_reset", "C12", "flowpaths/utils/solverwrapper.py",
  "                np.full(self.numVariables, 0, dtype=np.float64),\n", "                np.array(self.getLp().col_cost_, dtype=np.float64),\n"),
 ("mingenset_start_above_lb", "C15", "flowpaths/mingenset.py",
  "        for k in range(self.lowerbound, max(self.lowerbound+1, max_size+1)):", "        for k in range(self.lowerbound + 1, max(self.lowerbound+2, max_size+1)):"),
 ("setcover_geq_dropped_weights", "C15", "flowpaths/minsetcover.py",
  "                self.subset_weights[i] * self.subset_vars[i]\n", "                self.subset_vars[i]\n"),
 ("kfd_options_no_copy", "C18", "flowpaths/kflowdecomp.py",
  "        self.optimization_options = optimization_options.copy() or {}\n", "        self.optimization_options = optimization_options or {}\n"),
 ("constraints_no_deepcopy", "C18", "flowpaths/abstractpathmodeldag.py",
  "        self.subpath_constraints = copy.deepcopy(subpath_constraints)\n", "        self.subpath_constraints = subpath_constraints\n"),
 ("zero_fix_drops_gap_protection", "C05", "flowpaths/abstractwalkmodeldigraph.py",
  "                if True or end_prev != start_next:\n", "                if False:\n"),
 ("fix_via_bounds_lb_plus_one", "C05", "flowpaths/abstractwalkmodeldigraph.py",
  "                                self.solver.queue_set_var_lower_bound(self.edge_vars[(u, v, i)], m)\n", "                                self.solver.queue_set_var_lower_bound(self.edge_vars[(u, v, i)], m + 1)\n"),
]

def run(name, prop, f, old, new):
    d = "/tmp/mut/" + name
    shutil.rmtree(d, ignore_errors=True)
    os.makedirs(d)
    shutil.copytree(os.path.join(REPO, "flowpaths"), os.path.join(d, "flowpaths"), ignore=shutil.ignore_patterns("__pycache__"))
    p = os.path.join(d, f)
    s = open(p).read()
    if s.count(old) != 1:
        shutil.rmtree(d, ignore_errors=True)
        return name, prop, "PATTERN-NOT-FOUND(%d)" % s.count(old), 0
    open(p, "w").write(s.replace(old, new))
    out = "/tmp/mut/out_" + name
    env = dict(os.environ, VERIF_REPO=d, VERIF_OUT=out)
    t = time.time()
    cp = subprocess.run([os.path.join(V, "check"), prop, "--tier", "quick"], env=env, capture_output=True, text=True, cwd=V)
    dt = time.time() - t
    viol = [l for l in cp.stdout.splitlines() if l.startswith("VIOLATION")]
    clauses = sorted({os.path.basename(l.split("replay=")[1]).split("-")[0] for l in viol})
    shutil.rmtree(d, ignore_errors=True)
    shutil.rmtree(out, ignore_errors=True)
    return name, prop, ("DETECTED " + ",".join(clauses)) if cp.returncode == 1 else "MISSED exit=%d %s" % (cp.returncode, cp.stdout[-300:].replace("\n", " | ")), dt

if __name__ == "__main__":
    sel = sys.argv[1:]
    res = []
    for m in M:
        if sel and m[0] not in sel:
            continue
        r = run(*m)
        print("%-36s %-4s %s (%.0fs)" % r, flush=True)
        res.append(r)
    missed = [r for r in res if not r[2].startswith("DETECTED")]
    print("mutants=%d detected=%d missed=%s" % (len(res), len(res) - len(missed), [r[0] for r in missed]))
