"""Shared workload for C01 / C02 / C10: every exported model class under the configuration
swarm, solved through the simulated solver channel; the oracles recompute everything from
the caller-visible solution and the caller's own graph."""
import copy
import random

from sim import gen, simrun, models, ref
from sim import world as W
from sim.core import H, Violation, digest

DAG_OPTS = ["optimize_with_safe_paths", "optimize_with_safe_sequences", "optimize_with_safe_zero_edges",
            "optimize_with_subpath_constraints_as_safe_sequences", "optimize_with_safety_as_subpath_constraints",
            "optimize_with_safety_from_largest_antichain", "optimize_with_greedy", "optimize_with_flow_safe_paths"]
CYC_OPTS = ["optimize_with_safe_sequences", "optimize_with_safe_sequences_allow_geq_constraints",
            "optimize_with_safe_sequences_fix_via_bounds", "optimize_with_safe_sequences_fix_zero_edges",
            "optimize_with_safety_as_subset_constraints", "optimize_with_max_safe_antichain_as_subset_constraints"]

ALL_CLASSES = ["kFlowDecomp", "MinFlowDecomp", "kMinPathError", "kLeastAbsErrors", "kPathCover", "MinPathCover",
               "kFlowDecompCycles", "MinFlowDecompCycles", "kMinPathErrorCycles", "kLeastAbsErrorsCycles",
               "kPathCoverCycles", "MinPathCoverCycles", "NumPathsOptimization"]


def _rand_opts(rng, dag, cname):
    oo = {}
    pool = DAG_OPTS if dag else CYC_OPTS
    for o in pool:
        if rng.random() < 0.25:
            oo[o] = rng.random() < 0.5
    if dag:
        # documented exclusions
        if oo.get("optimize_with_safe_paths", True) and oo.get("optimize_with_safe_sequences"):
            oo["optimize_with_safe_paths"] = False
        if oo.get("optimize_with_flow_safe_paths"):
            oo["optimize_with_safe_paths"] = False
            oo["optimize_with_safe_sequences"] = False
        if cname not in ("kFlowDecomp", "MinFlowDecomp"):
            oo.pop("optimize_with_greedy", None)
            oo.pop("optimize_with_flow_safe_paths", None)
    else:
        if oo.get("optimize_with_safety_as_subset_constraints") and oo.get("optimize_with_max_safe_antichain_as_subset_constraints"):
            oo.pop("optimize_with_max_safe_antichain_as_subset_constraints")
    if cname == "MinFlowDecomp":
        if rng.random() < 0.2:
            oo["use_min_gen_set_lowerbound"] = True
        if rng.random() < 0.2:
            oo["optimize_with_guessed_weights"] = True
    if cname == "MinFlowDecompCycles":
        if rng.random() < 0.2:
            oo["use_min_gen_set_lowerbound"] = True
        if rng.random() < 0.4:
            oo["optimize_with_guessed_weights"] = True
            if rng.random() < 0.5:
                oo["add_min_gen_set_to_given_weights"] = True
            if rng.random() < 0.3:
                oo["optimize_with_given_weights_num_free_walks"] = 1
    return oo


def gen_world(seed, classes=ALL_CLASSES, want_constraints=0.3, node_p=0.25, tag="mr", length_cov_p=0.2):
    rng = random.Random(H(seed, tag))
    cname = rng.choice(classes)
    inner = None
    if cname == "NumPathsOptimization":
        inner = rng.choice(["kMinPathError", "kLeastAbsErrors"])
    base = inner or cname
    dag = base in models.DAG_CLASSES
    flow_decomp = base in models.FLOW_DECOMP_CLASSES
    cover = base in models.COVER_CLASSES
    float_w = (not cover) and rng.random() < 0.3
    if dag:
        r_ = rng.random()
        if (flow_decomp and r_ < 0.3) or (not flow_decomp and r_ < 0.15):
            g = gen.dag_bowtie(rng, float_w=float_w)
        elif r_ < 0.3 + 0.5 * want_constraints:
            g = gen.dag_braid(rng, max_routes=3, wmax=6, float_w=float_w)     # long, crossing routes: meaningful constraints
            for _ in range(20):
                if len(g["edges"]) <= 9 and len(g["routes"]) <= 4:
                    break
                g = gen.dag_braid(rng, max_routes=3, wmax=6, float_w=float_w)
            else:
                g = gen.dag_layered(rng, max_nodes=6, max_edges=8, float_w=float_w)
        else:
            g = gen.dag_layered(rng, max_nodes=6, max_edges=8, float_w=float_w)
    else:
        zp = 0.2 if flow_decomp else 0.6      # error / cover models: unused (zero-weight) cycles are ordinary input
        g = gen.digraph_cyclic(rng, max_nodes=5, max_edges=6, max_routes=2, wmax=3, float_w=float_w,
                               flower_p=0.3 if flow_decomp else 0.45, zero_petal_p=zp)
        while len(g["routes"]) > 3 or len(g["edges"]) > 7:
            g = gen.digraph_cyclic(rng, max_nodes=5, max_edges=6, max_routes=2, wmax=3, float_w=float_w, flower_p=0.0)
        rv = random.Random(H(seed, tag, "cyclic-variant"))
        r_ = rv.random()
        if r_ < 0.15:
            g = gen.dag_with_selfloops(rv, float_w=float_w)           # the only cycles are self-loops, taken 1-3 times
        elif r_ < 0.4:
            # the walk models accept any digraph, also an acyclic one (bubbles, bridges, bow-ties)
            g = gen.dag_bowtie(rv, float_w=float_w) if rv.random() < 0.4 else gen.dag_layered(rv, max_nodes=6, max_edges=8, max_routes=3, float_w=float_w)
            g = dict(g, kind="digraph")
        rl = random.Random(H(seed, tag, "laps"))
        if flow_decomp and rl.random() < (0.25 if cname == "MinFlowDecompCycles" else 0.12):
            # every element to be explained lies on a cycle that each walk takes >= 2 times; entry / exit edges ignored
            g = gen.digraph_laps(rl, float_w=float_w)
    if g.get("routes") is None:
        # bow-tie graphs carry no generating routes: derive some by peeling for constraints
        g = dict(g)
    node_mode = rng.random() < node_p and g.get("routes") is not None and not g.get("entry_exit")
    args = {}
    so = {}
    if rng.random() < 0.3:
        so["threads"] = rng.choice([1, 2, 3, 4, 8])
    if rng.random() < 0.2:
        so["time_limit"] = rng.choice([100, 3600])
        if rng.random() < 0.5:
            so["use_also_custom_timeout"] = True
    args["solver_options"] = so
    oo = _rand_opts(rng, dag, cname)
    args["optimization_options"] = oo
    graph = g
    wt = "float" if float_w else rng.choice(["int", "int", "float"])
    if not cover:
        args["weight_type"] = wt
    if node_mode:
        ng = gen.node_weighted(rng, g)
        graph = ng
        if cover:
            args["cover_type"] = "node"
        else:
            args["flow_attr_origin"] = "node"
        if rng.random() < 0.15 and len(ng["nodes"]) > 2:
            # a node without the attribute (treated as ignored)
            i = rng.randrange(len(ng["node_weights"]))
            ng["node_weights"][i][1] = None
        rz = random.Random(H(seed, tag, "zero-node"))
        if flow_decomp and rz.random() < 0.15 and len(ng["nodes"]) > 2:
            # a node whose flow value is 0 although routes pass through it (node weights need not be conserved): it is
            # not ignored, so nothing with positive weight may traverse it
            i = rz.randrange(len(ng["node_weights"]))
            if ng["node_weights"][i][1] is not None:
                ng["node_weights"][i][1] = 0
                ng["routes"], ng["weights"] = None, None          # the generating routes are no witness any more
    elif cover:
        graph = dict(g)
        graph["edges"] = [[u, v, 1] for u, v, _ in g["edges"]]
    elif not flow_decomp:
        graph = gen.perturb(rng, g)
        graph["routes"], graph["weights"] = g.get("routes"), g.get("weights")
    nroutes = len(g["routes"]) if g.get("routes") else 3
    if base.startswith("k") or inner:
        k = max(1, nroutes + rng.choice([0, 0, 0, 1, 1, -1]))
        if not flow_decomp and rng.random() < 0.2:
            k = 1           # a tight k: nothing can be satisfied "for free" by an extra route
        if dag:
            k = min(k, 5)
        if not dag:
            # cyclic MILPs grow quickly with k; keep every solve far below the real-time cap
            k = min(k, 2 if base in ("kMinPathErrorCycles", "kLeastAbsErrorsCycles") else 3)
        if not inner:
            args["k"] = k
    # constraints
    cons_key = "subpath_constraints" if dag else "subset_constraints"
    forced_ignore = None
    zero = [[u, v] for u, v, f in graph["edges"] if f == 0]
    if zero and not dag:
        g = dict(g)
        g["zero_flow_edges"] = zero + [e for e in g.get("zero_flow_edges", []) if e not in zero]
    if g.get("routes") and rng.random() < want_constraints:
        if node_mode:
            cons = []
            for _ in range(rng.randint(1, 2)):
                r = rng.choice(g["routes"])
                i = rng.randrange(len(r))
                j = rng.randrange(i, len(r))
                seg = list(dict.fromkeys(r[i:j + 1]))
                cons.append(seg)
        else:
            cons = gen.subpath_constraints(rng, g)
        if cons:
            args[cons_key] = cons
            cov = rng.choice([1, 1, 0.75, 0.5, 0.4, 0.6, 0.9])
            crossed = False
            crossed_front = False
            if not node_mode and rng.random() < 0.6:
                # "crossing" constraints: append an edge that leaves the generating route, so that no
                # route contains the whole constraint and only a fraction of it can be covered
                succs = {}
                for u_, v_, _ in graph["edges"]:
                    succs.setdefault(u_, []).append(v_)
                newc = []
                for c in cons:
                    last = c[-1][1]
                    alt = [y for y in succs.get(last, []) if [last, y] not in c]
                    onroute = set()
                    for r_ in g["routes"]:
                        onroute.update(zip(r_[:-1], r_[1:]))
                    # an edge out of the last node that does not continue any route through the constraint's last edge
                    cont = set()
                    for r_ in g["routes"]:
                        er = list(zip(r_[:-1], r_[1:]))
                        for a_, b_ in zip(er[:-1], er[1:]):
                            if list(a_) == c[-1]:
                                cont.add(b_[1])
                    # an edge out of the last node that no generating route takes right after the constraint's last edge
                    alt2 = [y for y in alt if y not in cont]
                    alt = alt2 or (alt if rng.random() < 0.3 else [])
                    # or cross at the start: an edge into the first node that no route takes right before the first edge
                    first = c[0][0]
                    prevs = set()
                    for r_ in g["routes"]:
                        er = list(zip(r_[:-1], r_[1:]))
                        for a_, b_ in zip(er[:-1], er[1:]):
                            if list(b_) == c[0]:
                                prevs.add(a_[0])
                    altp = [u_ for u_, v_, _ in graph["edges"] if v_ == first and u_ not in prevs and [u_, first] not in c]
                    if alt:
                        newc.append(c + [[last, rng.choice(alt)]])
                        crossed = True
                    elif altp and dag:
                        newc.append([[rng.choice(altp), first]] + c)
                        crossed = True
                        crossed_front = True
                    else:
                        newc.append(c)
                if crossed:
                    cons = newc
                    args[cons_key] = cons
                    longest = max(len(c) for c in cons)
                    shortest = min(len(c) for c in cons)
                    # a fraction that the generating route still reaches for every constraint
                    cov = rng.choice([0.5, 0.4]) if shortest <= 3 else rng.choice([0.5, 0.75, 0.6, 0.7])
                    if shortest == 3 and rng.random() < 0.5:
                        cov = 0.6       # 0.6 * 3 = 1.8: two of the three edges are needed
            if g.get("_constraint_has_unused_edge") and not crossed:
                # the unused (zero-flow) edge need not be covered
                cov = 0.5 if len(cons[0]) <= 3 else 0.75
            if cov != 1:
                args[cons_key + "_coverage"] = cov
            elif dag and not node_mode and rng.random() < length_cov_p:
                # coverage in terms of edge lengths
                args["subpath_constraints_coverage_length"] = rng.choice([1, 0.6])
                args["length_attr"] = "len"
                graph = dict(graph)
                # lengths: mostly 1..4, sometimes an explicit 0, some edges without the attribute (= 1)
                graph["edge_lengths"] = [[u, v, rng.choice([0, 0, 1, 1, 2, 3, 4])] for u, v, _ in graph["edges"] if rng.random() < 0.8]
            if crossed and dag and cov != 1 and rng.random() < 0.5:
                # the same, expressed as a length fraction: the crossing edge is short, the route part long
                args.pop(cons_key + "_coverage", None)
                graph = dict(graph)
                lens = {}
                short_edges = []
                for c in cons:
                    for e in c:
                        lens.setdefault(tuple(e), rng.randint(3, 9))
                    # the crossing edge (last, or first when crossed at the start) is the short one
                    onr = set()
                    for r_ in g["routes"]:
                        onr.update(zip(r_[:-1], r_[1:]))
                    for e in (c[-1], c[0]):
                        if not any(all(tuple(x) in list(zip(r_[:-1], r_[1:])) for x in c if x != e) and tuple(e) in list(zip(r_[:-1], r_[1:])) for r_ in g["routes"]):
                            lens[tuple(e)] = rng.choice([1, 1, 0])      # short, or of length zero: then it contributes nothing
                            short_edges.append(list(e))
                            break
                graph["edge_lengths"] = [[u, v, lens.get((u, v), rng.randint(1, 3))] for u, v, _ in graph["edges"]]
                def best_frac(c):
                    tot = float(sum(lens[tuple(e)] for e in c))
                    return max(sum(lens[tuple(e)] for e in c if tuple(e) in set(zip(r_[:-1], r_[1:]))) / tot for r_ in g["routes"])
                worst = min(best_frac(c) for c in cons)
                args["subpath_constraints_coverage_length"] = max(0.05, int(worst * 100 - 1) / 100.0)
                args["length_attr"] = "len"
                rc = random.Random(H(seed, tag, "cross-ignore"))
                if short_edges and not flow_decomp and not cover and rc.random() < 0.5:
                    # the edge that the length fraction lets every path avoid is, on top of that, ignored: nothing at all
                    # requires a path through it
                    forced_ignore = [rc.choice(short_edges)]
    # bow-tie graphs carry no generating routes; their constraints pair an edge into a hub with an edge out of
    # it that has a different flow value (only partially coverable by the paths of a small decomposition)
    if dag and not node_mode and cons_key not in args and g.get("hub_pairs") and rng.random() < want_constraints + 0.3:
        pair = rng.choice(g["hub_pairs"])
        args[cons_key] = [pair]
        g = dict(g)
        g["hub_pairs_used"] = True
        if rng.random() < 0.5:
            args[cons_key + "_coverage"] = 0.5
        else:
            big = rng.randint(0, 1)
            graph = dict(graph)
            lens = {tuple(pair[big]): rng.randint(6, 9), tuple(pair[1 - big]): rng.randint(1, 3)}
            graph["edge_lengths"] = [[u, v, lens.get((u, v), rng.randint(1, 4))] for u, v, _ in graph["edges"]]
            tot = float(sum(lens.values()))
            args["subpath_constraints_coverage_length"] = int(100 * lens[tuple(pair[big])] / tot - 1) / 100.0
            args["length_attr"] = "len"
    rt = random.Random(H(seed, tag, "tail"))
    if dag and not node_mode and g.get("hub_pairs") and rt.random() < 0.3:
        # a three-edge constraint around a hub - an edge into it, an edge out of it with another flow value, and a "tail" edge
        # appended behind that one - to be covered for 0.6 (two of the three edges): a path through the out-edge and the tail
        # satisfies it, whereas any *part* of the constraint (its first two edges alone) would need the mismatched pair on
        # one path.  Code that looks at a window of the graph must not clip the constraint.
        cand = [pr for pr in g["hub_pairs"] if not any(e[0] == pr[1][1] for e in graph["edges"])]
        if flow_decomp and rt.random() < 0.6:
            # a purpose-built hub: the values entering and leaving it are the same multiset (so a decomposition with as many
            # paths as values exists), the constraint pairs two different values, the tail hangs behind (or a head before)
            cand = []
            pool_ = gen.names(rt, 9)
            P = rt.choice([[3, 2], [4, 1], [2, 1, 3], [5, 2], [1, 2], [4, 3, 1]])
            Q = P[1:] + P[:1]
            sc_ = rt.choice([0.5, 1.5]) if float_w else 1
            h_ = pool_.pop()
            ins = [[pool_.pop(), h_, p_ * sc_] for p_ in P]
            outs = [[h_, pool_.pop(), q_ * sc_] for q_ in Q]
            i_ = rt.randrange(len(P))
            j_ = rt.choice([j for j in range(len(Q)) if Q[j] != P[i_]])
            if rt.random() < 0.5:
                extra = [outs[j_][1], pool_.pop(), outs[j_][2]]
                con_ = [ins[i_][:2], outs[j_][:2], extra[:2]]
            else:
                extra = [pool_.pop(), ins[i_][0], ins[i_][2]]
                con_ = [extra[:2], ins[i_][:2], outs[j_][:2]]
            ee = ins + outs + [extra]
            rt.shuffle(ee)
            nn = []
            for u_, v_, _ in ee:
                for x_ in (u_, v_):
                    if x_ not in nn:
                        nn.append(x_)
            graph = {"kind": "dag", "nodes": nn, "edges": ee, "routes": None, "weights": None}
            g = dict(graph, hub_pairs=[], hub_pairs_used=True)
            args[cons_key] = [con_]
            args[cons_key + "_coverage"] = 0.6
            args.pop("subpath_constraints_coverage_length", None)
            args.pop("length_attr", None)
        if cand:
            pr = rt.choice(cand)
            t_ = pr[1][1]
            t2 = [x for x in ("tl", "y.1", "z9", "tl2") if x not in graph["nodes"]][0]
            f_ = [e[2] for e in graph["edges"] if [e[0], e[1]] == list(pr[1])][0]
            graph = dict(graph)
            graph["edges"] = [list(e) for e in graph["edges"]] + [[t_, t2, f_]]
            graph["nodes"] = list(graph["nodes"]) + [t2]
            graph.pop("edge_lengths", None)
            g = dict(g, hub_pairs_used=True)
            args[cons_key] = [[list(pr[0]), list(pr[1]), [t_, t2]]]
            args[cons_key + "_coverage"] = 0.6
            args.pop("subpath_constraints_coverage_length", None)
            args.pop("length_attr", None)
    rd = random.Random(H(seed, tag, "detour"))
    if dag and not node_mode and not inner and base in ("kMinPathError", "kLeastAbsErrors") and rd.random() < 0.15:
        # a chain with a detour that nothing requires: its edges are ignored (or carry no flow), and the constraint that
        # names one of them, next to a long chain edge, is relaxed by a length fraction which the chain edge alone reaches
        pool_ = gen.names(rd, 8)
        chain = [pool_.pop() for _ in range(rd.randint(3, 5))]
        f_ = _rw = rd.randint(2, 9) * (0.5 if float_w else 1)
        i_ = rd.randrange(1, len(chain) - 1) if len(chain) > 3 else 1
        x_ = pool_.pop()
        ce_ = [[u_, v_, f_] for u_, v_ in zip(chain[:-1], chain[1:])]
        zero_variant = rd.random() < 0.4
        d1 = [chain[i_], x_, 0 if zero_variant else rd.randint(1, 9)]
        d2 = [x_, chain[i_ + 1], 0 if zero_variant else rd.randint(1, 9)]
        ee = ce_ + [d1, d2]
        rd.shuffle(ee)
        nn = []
        for u_, v_, _ in ee:
            for y_ in (u_, v_):
                if y_ not in nn:
                    nn.append(y_)
        long_, short_ = rd.randint(3, 9), 1
        if rd.random() < 0.5:
            con_ = [[chain[i_ - 1], chain[i_]], d1[:2]]           # chain edge into the detour's start, then the detour
            lens_ = {(chain[i_ - 1], chain[i_]): long_, (d1[0], d1[1]): short_}
        elif i_ + 2 < len(chain):
            con_ = [d2[:2], [chain[i_ + 1], chain[i_ + 2]]]
            lens_ = {(chain[i_ + 1], chain[i_ + 2]): long_, (d2[0], d2[1]): short_}
        else:
            con_ = [[chain[i_ - 1], chain[i_]], d1[:2]]
            lens_ = {(chain[i_ - 1], chain[i_]): long_, (d1[0], d1[1]): short_}
        graph = {"kind": "dag", "nodes": nn, "edges": ee, "routes": [list(chain)], "weights": [f_],
                 "edge_lengths": [[u_, v_, lens_.get((u_, v_), rd.randint(1, 10))] for u_, v_, _ in ee]}
        g = dict(graph)
        for k_ in (cons_key + "_coverage", "solution_weights_superset"):
            args.pop(k_, None)
        args[cons_key] = [con_]
        args["subpath_constraints_coverage_length"] = int(100.0 * long_ / (long_ + short_) - 1) / 100.0
        args["length_attr"] = "len"
        args["k"] = 1
        nroutes = 1
        if not zero_variant:
            forced_ignore = [d1[:2], d2[:2]]
    if cons_key not in args and not node_mode and rng.random() < 0.15:
        # a coverage fraction although there are no constraints: a legal call in which the fraction must mean nothing
        if dag and rng.random() < 0.3:
            args["subpath_constraints_coverage_length"] = rng.choice([0.5, 0.3])
            args["length_attr"] = "len"
            graph = dict(graph)
            graph["edge_lengths"] = [[u, v, rng.randint(1, 4)] for u, v, _ in graph["edges"] if rng.random() < 0.8]
        else:
            args[cons_key + "_coverage"] = rng.choice([0.5, 0.5, 0.75, 0.3])
    # ignored elements
    if rng.random() < 0.2:
        if node_mode:
            inner_nodes = [x for x in graph["nodes"]]
            ign = [rng.choice(inner_nodes)]
        else:
            ign = [[e[0], e[1]] for e in graph["edges"] if rng.random() < 0.2][:2]
        if ign and not node_mode and len(ign) >= len([e for e in graph["edges"] if e[2] is not None]):
            ign = []        # at least one weighted element stays (an all-ignored input is outside every model's domain)
        if ign and node_mode and len(ign) >= len([x for x in graph.get("node_weights", []) if x[1] is not None]):
            ign = []
        if ign:
            args["elements_to_ignore"] = ign
    rdup = random.Random(H(seed, tag, "dup-edge"))
    if not dag and not node_mode and args.get(cons_key) and rdup.random() < 0.3:
        # a subset constraint is a *set* of edges: listing one of them twice changes nothing
        c_ = rdup.choice(args[cons_key])
        if len(c_) >= 2:
            c_.insert(rdup.randrange(len(c_) + 1), list(rdup.choice(c_)))
    rla = random.Random(H(seed, tag, "length-attr-alone"))
    if dag and not node_mode and args.get(cons_key) and "length_attr" not in args and rla.random() < 0.3:
        # a length attribute without a length coverage: a legal call (the attribute also serves path lengths / edge
        # positions) in which the coverage stays a fraction of the *number* of constraint edges
        args["length_attr"] = "len"
        graph = dict(graph)
        graph["edge_lengths"] = [[u_, v_, rla.choice([1, 2, 3, 5, 9])] for u_, v_, _ in graph["edges"] if rla.random() < 0.9]
    if forced_ignore:
        args["elements_to_ignore"] = forced_ignore
    if g.get("entry_exit"):
        args["elements_to_ignore"] = [list(e) for e in g["entry_exit"]]
        if "k" in args:
            args["k"] = len(g["routes"]) + (1 if rl.random() < 0.25 else 0)
        if cons_key not in args and rl.random() < 0.4:
            args[cons_key] = [[list(rl.choice(g["back_edges"]))]]
        if cname == "MinFlowDecompCycles" and rl.random() < 0.6:
            # guesses are taken from the flow values - here none of them need be a walk's weight, and the ignored entry /
            # exit edges contribute values far above everything else
            oo["optimize_with_guessed_weights"] = True
    # additional starts / ends
    if rng.random() < 0.2 and len(graph["nodes"]) >= 3 and (node_mode or not flow_decomp):
        cand = list(graph["nodes"])
        args["additional_starts"] = [rng.choice(cand)]
        if rng.random() < 0.6:
            args["additional_ends"] = [rng.choice(cand)]
    # error scaling (error models)
    if base in ("kMinPathError", "kLeastAbsErrors", "kMinPathErrorCycles", "kLeastAbsErrorsCycles") and rng.random() < 0.25:
        if node_mode:
            args["error_scaling"] = [[rng.choice(graph["nodes"]), rng.choice([0, 0, 0.5, 1])]]
        else:
            e = rng.choice(graph["edges"])
            args["error_scaling"] = [[[e[0], e[1]], rng.choice([0, 0, 0.5, 1])]]
    if base in ("kFlowDecomp",) and rng.random() < 0.25 and g.get("weights") and not node_mode:
        args["solution_weights_superset"] = list(g["weights"]) + [rng.randint(1, 5)]
        if "k" in args and rng.random() < 0.5:
            args["k"] = max(1, nroutes - 1)       # fewer paths allowed than the given weights could fill
    if base in ("kMinPathError", "kLeastAbsErrors") and rng.random() < 0.1 and g.get("weights") and not inner:
        args["solution_weights_superset"] = list(g["weights"]) + [rng.randint(1, 5)]
    ri = random.Random(H(seed, tag, "isolated"))
    if not node_mode and ri.random() < 0.06:
        # an isolated node: a source and a sink at once; the one-node route through it is a source-to-sink route
        graph = dict(graph)
        graph["nodes"] = list(graph["nodes"]) + [[x for x in ("iso", "z.0", "q7") if x not in graph["nodes"]][0]]
        graph["isolated"] = graph["nodes"][-1]
    if cname == "NumPathsOptimization":
        args["model_type"] = inner
        args["min_num_paths"] = 1
        args["max_num_paths"] = nroutes + 1
        args["stop_on_first_feasible"] = True
    world = {"class": cname, "graph": graph, "args": args}
    return world


def to_nx_world(world):
    return world


# --------------------------------------------------------------------------

def build_graph(world):
    """The caller's graph for this world (with lengths)."""
    g = world["graph"]
    G = gen.to_nx(g, attr="flow")
    for u, v, l in g.get("edge_lengths", []):
        G[u][v]["len"] = l
    return G


def run(world, simcfg, seed):
    """Build and solve; returns (out, simworld, model).  The graph is built here so that
    length attributes are present."""
    from sim import world as SW
    w = SW.SimWorld(seed, simcfg)
    out = {"construct_exc": None, "solve_exc": None, "system_exit": False, "solved": False, "solution": None}
    cname = world["class"]
    model = None
    with SW.active(w):
        try:
            G = build_graph(world)
            if simcfg.get("inplace_prelude") and not _node_mode(world):
                # the caller used this very graph object before, with every flow value halved, for a model of the same
                # class (solved), and then updated the flow values in place
                factor = simcfg["inplace_prelude"]
                for u_, v_, d_ in G.edges(data=True):
                    if "flow" in d_:
                        d_["flow"] = d_["flow"] * factor
                try:
                    m0 = models.build(world, shared={"G": G})
                    m0.solve()
                except SW.Discard:
                    raise
                except Exception:
                    pass
                for u_, v_, f_ in world["graph"]["edges"]:
                    if f_ is not None:
                        G[u_][v_]["flow"] = f_
                w.probes["inplace_prelude"] += 1
                w.faults = {int(k_) + w.inv: dict(v_, at=int(k_) + w.inv) for k_, v_ in w.faults.items()}
            model = models.build(world, shared={"G": G})
        except SW.Discard:
            raise
        except Exception as e:
            out["construct_exc"] = type(e).__name__
            out["construct_frame"] = simrun.lib_frame(e)
            out["construct_msg"] = str(e)[:160]
        if model is not None:
            try:
                model.solve()
                out["solved"] = bool(model.is_solved())
                if out["solved"]:
                    out["raw_solution"] = model.get_solution()
                    out["solution"] = models._sol_json(out["raw_solution"])
                    out["objective"] = model.get_objective_value()
                for _ in range(int(simcfg.get("resolve", 0))):
                    # the caller solves the same object again (the solver may now deliver another optimum): what the
                    # getters return afterwards is the answer of a solved model like any other
                    if not out["solved"]:
                        break
                    w.probes["resolved_same_object"] += 1
                    model.solve()
                    out["solved"] = bool(model.is_solved())
                    if out["solved"]:
                        out["raw_solution"] = model.get_solution()
                        out["solution"] = models._sol_json(out["raw_solution"])
                        out["objective"] = model.get_objective_value()
            except SW.Discard:
                raise
            except SystemExit:
                out["system_exit"] = True
            except Exception as e:
                out["solve_exc"] = type(e).__name__
                out["solve_frame"] = simrun.lib_frame(e)
                out["solve_msg"] = str(e)[:160]
    out["fired"] = dict(w.fired)
    out["probes"] = dict(w.probes)
    out["sim_s"] = w.sim_seconds
    out["n_inv"] = len(w.invocations)
    out["digest"] = digest([w.history.digest(), out.get("solution"), out["construct_exc"], out["solve_exc"]])
    return out, w, model


# --------------------------------------------------------------------------
# oracles
# --------------------------------------------------------------------------

def _base(world):
    return world["args"].get("model_type") or world["class"]


def routes_of(world, sol):
    base = _base(world)
    key = "walks" if base in models.CYCLIC_CLASSES else "paths"
    return key, sol.get(key)


def _greedy_peeling(edges):
    """Reference max-bottleneck peeling of a DAG flow (edges: [[u, v, f]]): list of paths.  Independent of flowpaths."""
    flow = {(u, v): f for u, v, f in edges if f}
    nodes = []
    for u, v, _ in edges:
        for x in (u, v):
            if x not in nodes:
                nodes.append(x)
    succ = {x: [] for x in nodes}
    indeg = {x: 0 for x in nodes}
    for u, v, _ in edges:
        succ[u].append(v)
        indeg[v] += 1
    topo, q, deg = [], [x for x in nodes if indeg[x] == 0], dict(indeg)
    while q:
        x = q.pop(0)
        topo.append(x)
        for y in succ[x]:
            deg[y] -= 1
            if deg[y] == 0:
                q.append(y)
    sources = [x for x in nodes if indeg[x] == 0]
    sinks = [x for x in nodes if not succ[x]]
    paths = []
    for _ in range(4 * len(edges) + 4):
        best, prev = {x: (float("inf") if x in sources else float("-inf")) for x in nodes}, {}
        for x in topo:
            for y in succ[x]:
                b = min(best[x], flow.get((x, y), 0))
                if b > best[y]:
                    best[y], prev[y] = b, x
        t = max(sinks, key=lambda x: best[x]) if sinks else None
        if t is None or best[t] <= 1e-12 or best[t] == float("inf"):
            break
        path = [t]
        while path[-1] in prev and path[-1] not in sources:
            path.append(prev[path[-1]])
        path.reverse()
        for e in zip(path[:-1], path[1:]):
            flow[e] = flow.get(e, 0) - best[t]
        paths.append(path)
    return paths


def _lengths_without_length_coverage(w2):
    """In half of the cases (decided by the constraint itself, no draw): edge lengths and `length_attr` although the
    coverage is the default count coverage - lengths must then play no part in whether a constraint counts as met."""
    a, g = w2["args"], w2["graph"]
    r = random.Random(H(str(a["subpath_constraints"]), "lengths-alone"))
    if r.random() < 0.5:
        a["length_attr"] = "len"
        g["edge_lengths"] = [[u, v, r.choice([2, 3, 5, 9])] for u, v, _ in g["edges"]]


def greedy_variant(world, rng):
    """The greedy route of the DAG flow decompositions, reached on purpose: default options (greedy on), nothing ignored,
    more paths allowed than the instance needs (the answer is then padded), and decimal float weights (0.1-steps: flow
    values whose sums and differences are not exact in binary).  Returns None where it does not apply."""
    g = world["graph"]
    if world["class"] not in ("kFlowDecomp", "MinFlowDecomp") or _node_mode(world):
        return None
    w2 = copy.deepcopy(world)
    a = w2["args"]
    a["optimization_options"] = {}
    a.pop("elements_to_ignore", None)
    a.pop("solution_weights_superset", None)
    if not g.get("routes") or not g.get("weights"):
        # no generating routes (bow-tie graphs): any two consecutive edges that the greedy paths do not take one after
        # the other; with enough paths allowed some decomposition routes a little flow through both
        gp = _greedy_peeling(g["edges"])
        greedy_pairs = set()
        for p_ in gp:
            ep = list(zip(p_[:-1], p_[1:]))
            greedy_pairs.update(zip(ep[:-1], ep[1:]))
        E_ = [(u, v) for u, v, f in g["edges"] if f]
        cands = [(e1, e2) for e1 in E_ for e2 in E_ if e1[1] == e2[0] and (e1, e2) not in greedy_pairs]
        if not cands or not gp:
            return None
        e1, e2 = rng.choice(cands)
        a["subpath_constraints"] = [[list(e1), list(e2)]]
        for k_ in ("subpath_constraints_coverage", "subpath_constraints_coverage_length", "length_attr"):
            a.pop(k_, None)
        if "k" in a:
            a["k"] = min(len(gp) + rng.choice([1, 2]), 6)
        _lengths_without_length_coverage(w2)
        return w2
    if "k" in a:
        a["k"] = len(g["routes"]) + rng.choice([1, 1, 2])
    if rng.random() < 0.5:
        # a constraint that the generating routes satisfy but the greedy (max-bottleneck) paths do not: the shortcut has
        # to be abandoned although it found few enough paths
        gp = _greedy_peeling(g["edges"])
        greedy_pairs = set()
        for p_ in gp:
            ep = list(zip(p_[:-1], p_[1:]))
            greedy_pairs.update(zip(ep[:-1], ep[1:]))
        cands = []
        for r in g["routes"]:
            er = list(zip(r[:-1], r[1:]))
            cands += [(e1, e2) for e1, e2 in zip(er[:-1], er[1:]) if (e1, e2) not in greedy_pairs]
        if cands:
            e1, e2 = rng.choice(cands)
            a["subpath_constraints"] = [[list(e1), list(e2)]]
            for k_ in ("subpath_constraints_coverage", "subpath_constraints_coverage_length", "length_attr"):
                a.pop(k_, None)
            a["k"] = len(g["routes"]) + rng.choice([0, 1, 1, 2]) if "k" in a else a.get("k")
            if a.get("k") is None:
                a.pop("k", None)
            _lengths_without_length_coverage(w2)
            return w2
    if rng.random() < 0.7:
        ws = [round(0.1 * rng.randint(1, 30), 1) for _ in g["weights"]]
        flow = {}
        for r, w_ in zip(g["routes"], ws):
            for e in zip(r[:-1], r[1:]):
                flow[e] = flow.get(e, 0) + w_
        g2 = w2["graph"]
        g2["edges"] = [[u, v, flow.get((u, v), 0)] for u, v, _ in g2["edges"]]
        g2["weights"] = ws
        a["weight_type"] = "float"
    return w2


def length_variant(world, rng):
    """The same world with its constraints expressed as a *length* fraction: seeded edge lengths (0 .. 9, some edges
    without the attribute = 1) and the largest fraction (two decimals, minus 0.01) that the generating routes still
    reach for every constraint - so anything that makes the length rule stricter loses the witness, and the
    containment oracle sees anything that makes it looser.  DAG models in edge mode with routes and constraints only."""
    g = world["graph"]
    a = world["args"]
    if _base(world) not in models.DAG_CLASSES or _node_mode(world) or not g.get("routes") or not a.get("subpath_constraints"):
        return None
    w2 = copy.deepcopy(world)
    g2, a2 = w2["graph"], w2["args"]
    lens = {}
    for u, v, _ in g2["edges"]:
        if rng.random() < 0.85:
            lens[(u, v)] = rng.choice([0, 0, 1, 2, 3, 5, 9])
    # boundary case of the length rule: two adjacent edges that no generating route takes one after the other; one of
    # them gets length 0 - it adds nothing to the constraint's length, so a route through the other one covers it all
    E_ = [(u, v) for u, v, _ in g2["edges"]]
    consecutive = set()
    on_route = set()
    for r in g["routes"]:
        er = list(zip(r[:-1], r[1:]))
        on_route.update(er)
        consecutive.update(zip(er[:-1], er[1:]))
    pairs = [(e1, e2) for e1 in E_ for e2 in E_ if e1[1] == e2[0] and (e1, e2) not in consecutive and e1 in on_route and e2 in on_route]
    cover_ = _base(world) in models.COVER_CLASSES
    if pairs and rng.random() < (0.9 if cover_ else 0.6):
        e1, e2 = rng.choice(pairs)
        zero = rng.choice([e1, e2])
        lens[zero] = 0
        lens[e2 if zero == e1 else e1] = rng.randint(1, 9)
        a2["subpath_constraints"] = [[list(e1), list(e2)]] + ([c for c in a2["subpath_constraints"] if rng.random() < 0.5])
    if cover_ and rng.random() < 0.6:
        # cover models: an edge of length 0 that only one generating route uses (it costs a path of its own, if the other
        # edges of that route are used elsewhere too), in a constraint together with a neighbour of positive length: the
        # constraint can be met without the edge, the edge has to be covered all the same
        use = {}
        for r in g["routes"]:
            for e in set(zip(r[:-1], r[1:])):
                use[e] = use.get(e, 0) + 1
        cand = []
        for r in g["routes"]:
            er = list(zip(r[:-1], r[1:]))
            for i_, z in enumerate(er):
                if use[z] == 1 and len(er) > 1:
                    nb = er[i_ - 1] if i_ > 0 else er[i_ + 1]
                    private = sum(1 for e in er if use[e] == 1)
                    cand.append((private, z, nb, i_ > 0))
        if cand:
            best_ = min(c_[0] for c_ in cand)
            _, z, nb, before = rng.choice([c_ for c_ in cand if c_[0] == best_])
            lens[z] = 0
            lens[nb] = rng.randint(1, 9)
            a2["subpath_constraints"] = [[list(nb), list(z)] if before else [list(z), list(nb)]]
    g2["edge_lengths"] = [[u, v, lens[(u, v)]] for u, v, _ in g2["edges"] if (u, v) in lens]
    L = lambda e: lens.get(tuple(e), 1)
    worst = 1.0
    for c in a2["subpath_constraints"]:
        tot = float(sum(L(e) for e in c))
        if tot <= 0:
            continue
        best = max(sum(L(e) for e in c if tuple(e) in set(zip(r[:-1], r[1:]))) / tot for r in g["routes"])
        worst = min(worst, best)
    if worst <= 0.02:
        return None
    a2.pop("subpath_constraints_coverage", None)
    a2["subpath_constraints_coverage_length"] = max(0.01, int(worst * 100 - 1) / 100.0) if worst < 1 or rng.random() < (0.2 if cover_ else 0.5) else 1
    a2["length_attr"] = "len"
    return w2


def oracle_c01(world, out, pid="C01"):
    vs = []
    if not out["solved"]:
        return vs
    cname = world["class"]
    base = _base(world)
    sol = out["raw_solution"]
    g = world["graph"]
    args = world["args"]
    key, routes = routes_of(world, sol)

    def V(clause, detail):
        vs.append(Violation(pid, pid + "." + clause, cname + ("/node" if _node_mode(world) else ""), detail))
    if routes is None:
        V("no_routes_key", {"keys": sorted(map(str, sol.keys()))})
        return vs
    dag = base in models.DAG_CLASSES
    oo = args.get("optimization_options") or {}
    superset = args.get("solution_weights_superset") is not None
    allow_empty = bool(oo.get("allow_empty_paths") or oo.get("allow_empty_walks") or superset)
    for clause, detail in ref.check_routes(g, routes, dag, args.get("additional_starts"), args.get("additional_ends"), allow_empty=allow_empty):
        V(clause, detail)
    # one non-negative weight (and slack) per route
    for wkey in ("weights", "slacks"):
        if wkey in sol:
            ws = sol[wkey]
            if ws is None or len(ws) != len(routes):
                V("weights_mismatch", {"key": wkey, "n_routes": len(routes), "n": None if ws is None else len(ws)})
            else:
                for x in ws:
                    if not isinstance(x, (int, float)) or x < -1e-9:
                        V("negative_or_bad_weight", {"key": wkey, "value": repr(x)})
                        break
        elif wkey == "weights" and base not in models.COVER_CLASSES:
            V("weights_missing", {})
    # number of routes
    k = args.get("k")
    if base.startswith("k") and k is not None and cname != "NumPathsOptimization" and superset:
        # with solution_weights_superset the model has one layer per given weight, of which at most k may be used
        used = [r for r in routes if len(r) > 0]
        if len(used) > k:
            V("more_than_k", {"k": k, "n_nonempty": len(used), "superset": args.get("solution_weights_superset")})
    if base.startswith("k") and k is not None and cname != "NumPathsOptimization" and not superset:
        if len(routes) > k:
            V("more_than_k", {"k": k, "n": len(routes)})
        if not allow_empty and not args.get("additional_starts") and not args.get("additional_ends") and len(routes) != k:
            V("not_exactly_k", {"k": k, "n": len(routes)})
    return vs


def _node_mode(world):
    a = world["args"]
    return a.get("flow_attr_origin") == "node" or a.get("cover_type") == "node"


def oracle_c02(world, out, pid="C02"):
    """Flow conservation recomputed from the caller-visible routes."""
    vs = []
    if not out["solved"]:
        return vs
    cname = world["class"]
    sol = out["raw_solution"]
    g = world["graph"]
    args = world["args"]
    key, routes = routes_of(world, sol)
    ws = sol.get("weights")

    def V(clause, detail):
        vs.append(Violation(pid, pid + "." + clause, cname + ("/node" if _node_mode(world) else ""), detail))
    if routes is None or ws is None or len(ws) != len(routes):
        V("malformed_solution", {"routes": routes is not None, "weights": None if ws is None else len(ws)})
        return vs
    wt = args.get("weight_type", "float")
    for x in ws:
        if wt == "int" and not (isinstance(x, int) and not isinstance(x, bool)):
            V("weight_type", {"expected": "int", "got": type(x).__name__, "value": repr(x)})
            break
        if wt == "float" and not isinstance(x, float):
            V("weight_type", {"expected": "float", "got": type(x).__name__, "value": repr(x)})
            break
    ign = args.get("elements_to_ignore") or []
    # routes must be real routes for the recomputation to mean anything
    E = ref.edge_set(g)
    for r in routes:
        for a, b in zip(r[:-1], r[1:]):
            if (a, b) not in E:
                return vs   # C01's business
    if _node_mode(world):
        ignored = set(ign)
        expl = ref.explained_flow_nodes(routes, ws)
        for x, f in g["node_weights"]:
            if f is None or x in ignored:
                continue
            got = expl.get(x, 0)
            if not _flow_eq(got, f, wt):
                V("flow_not_explained", {"node": x, "flow": f, "explained": got})
                break
    else:
        ignored = {tuple(e) for e in ign}
        expl = ref.explained_flow_edges(routes, ws)
        for u, v, f in g["edges"]:
            if (u, v) in ignored or f is None:
                continue
            got = expl.get((u, v), 0)
            if not _flow_eq(got, f, wt):
                V("flow_not_explained", {"edge": [u, v], "flow": f, "explained": got})
                break
    return vs


def _flow_eq(got, f, wt):
    if wt == "int":
        return got == f
    return abs(got - f) <= 1e-6 * max(1.0, abs(f))


def oracle_c10(world, out, pid="C10"):
    """Containment: every constraint is covered to the requested fraction by one route."""
    vs = []
    if not out["solved"]:
        return vs
    cname = world["class"]
    base = _base(world)
    sol = out["raw_solution"]
    g = world["graph"]
    args = world["args"]
    key, routes = routes_of(world, sol)
    dag = base in models.DAG_CLASSES
    cons = args.get("subpath_constraints" if dag else "subset_constraints") or []
    if not cons or routes is None:
        return vs
    cov = args.get("subpath_constraints_coverage" if dag else "subset_constraints_coverage", 1)
    cov_len = args.get("subpath_constraints_coverage_length")
    lengths = None
    if cov_len is not None:
        lengths = {(u, v): l for u, v, l in g.get("edge_lengths", [])}
        cov = cov_len

    def V(clause, detail):
        vs.append(Violation(pid, pid + "." + clause, cname + ("/node" if _node_mode(world) else ""), detail))
    for ci, c in enumerate(cons):
        if _node_mode(world) and c and isinstance(c[0], str):
            need = len(set(c)) * cov
            best = max((len(set(c) & set(r)) for r in routes), default=0)
        elif _node_mode(world):
            # edge-list constraint in node mode: generated with coverage 1 only
            es = [tuple(e) for e in c]
            need = len(es)
            best = max((ref.constraint_coverage_edges(es, r) for r in routes), default=0)
            if cov != 1:
                continue
        else:
            es = [tuple(e) for e in c]
            as_set = not dag
            need = ref.constraint_length(es, lengths, as_set=as_set) * cov
            best = max((ref.constraint_coverage_edges(es, r, lengths, as_set=as_set) for r in routes), default=0)
        if best < need - 1e-9:
            V("constraint_not_contained", {"constraint": c, "needed": need, "best_single_route": best, "coverage": cov})
            break
    return vs


def witness_feasible(world):
    """Are the generating routes (with their weights) a solution of this world's model that satisfies every
    constraint to the requested fraction?  Evaluated on the world as it is (also after shrinking), with the same
    reference functions the oracles use.  Conservative: any doubt -> False."""
    g = world["graph"]
    args = world["args"]
    cname = world["class"]
    base = _base(world)
    routes, weights = g.get("routes"), g.get("weights")
    if not routes or not weights or cname == "NumPathsOptimization":
        return False
    dag = base in models.DAG_CLASSES
    k = args.get("k")
    if base.startswith("k") and (k is None or k < len(routes)):
        return False
    if base.startswith("Min") and len(routes) >= len(g["edges"]):
        return False
    wt = args.get("weight_type", "float")
    if wt == "int" and any(not isinstance(w, int) for w in weights):
        return False
    if not dag and not (wt == "int" and base in ("kFlowDecompCycles", "MinFlowDecompCycles", "kPathCoverCycles", "MinPathCoverCycles")):
        return False       # repetition caps of the walk models are not modelled here
    sup = args.get("solution_weights_superset")
    if sup is not None:
        pool = list(sup)
        for w in weights:
            if w in pool:
                pool.remove(w)
            else:
                return False
    E = ref.edge_set(g)
    for r in routes:
        if any((a, b) not in E for a, b in zip(r[:-1], r[1:])):
            return False
    if ref.check_routes(g, routes, dag, args.get("additional_starts"), args.get("additional_ends")):
        return False
    ign = args.get("elements_to_ignore") or []
    node_mode = _node_mode(world)
    if base in models.FLOW_DECOMP_CLASSES:
        if node_mode:
            expl = ref.explained_flow_nodes(routes, weights)
            for x, f in g.get("node_weights", []):
                if f is not None and x not in ign and abs(expl.get(x, 0) - f) > 1e-9:
                    return False
        else:
            expl = ref.explained_flow_edges(routes, weights)
            ig = {tuple(e) for e in ign}
            for u, v, f in g["edges"]:
                if (u, v) not in ig and f is not None and abs(expl.get((u, v), 0) - f) > 1e-9:
                    return False
    if base in models.COVER_CLASSES:
        if node_mode:
            seen = {x for r in routes for x in r}
            if any(x not in seen and x not in ign for x in g["nodes"]):
                return False
        else:
            cov = set()
            for r in routes:
                cov.update(zip(r[:-1], r[1:]))
            ig = {tuple(e) for e in ign}
            if any((u, v) not in cov and (u, v) not in ig for u, v, _ in g["edges"]):
                return False
    if base in ("kMinPathError", "kMinPathErrorCycles"):
        # the error of an edge is bounded by the slacks of the paths through it: an edge with positive weight that no
        # route uses makes the model infeasible, whatever the slacks
        if node_mode:
            seen = {x for r in routes for x in r}
            if any(f and x not in seen and x not in ign for x, f in g.get("node_weights", [])):
                return False
        else:
            cov = set()
            for r in routes:
                cov.update(zip(r[:-1], r[1:]))
            ig = {tuple(e) for e in ign}
            zero_scaled = {tuple(e) for e, sc in (args.get("error_scaling") or []) if sc == 0 and isinstance(e, list)}
            if any(f and (u, v) not in cov and (u, v) not in ig and (u, v) not in zero_scaled for u, v, f in g["edges"]):
                return False
    fake = {"solved": True, "raw_solution": {("paths" if dag else "walks"): routes, "weights": weights}}
    if oracle_c10(world, fake):
        return False
    return True


def shrink(spec):
    s = spec
    if s["sim"].get("faults"):
        c = copy.deepcopy(s); c["sim"]["faults"] = []; yield c
    if s["sim"]["reply"] != "canonical":
        for r in ("canonical", "alt", "noise"):
            if r != s["sim"]["reply"]:
                c = copy.deepcopy(s); c["sim"]["reply"] = r; yield c
    args = s["world"]["args"]
    for key in ("solver_options", "optimization_options"):
        for k in list((args.get(key) or {}).keys()):
            c = copy.deepcopy(s)
            del c["world"]["args"][key][k]
            yield c
    for k in ("subpath_constraints", "subset_constraints", "elements_to_ignore", "additional_starts", "additional_ends",
              "error_scaling", "solution_weights_superset", "subpath_constraints_coverage", "subset_constraints_coverage",
              "subpath_constraints_coverage_length"):
        if k in args:
            c = copy.deepcopy(s)
            del c["world"]["args"][k]
            if k == "subpath_constraints_coverage_length":
                c["world"]["args"].pop("length_attr", None)
            yield c
    for k in ("subpath_constraints", "subset_constraints"):
        if k in args and len(args[k]) > 1:
            for i in range(len(args[k])):
                c = copy.deepcopy(s)
                del c["world"]["args"][k][i]
                yield c
    if args.get("k", 1) > 1:
        c = copy.deepcopy(s); c["world"]["args"]["k"] -= 1; yield c
