"""C20 - graph files are parsed faithfully and malformed files are rejected.

Simulated storage: the file is written to an in-memory disk; the fault layer decides what a
later read delivers.  Oracle: an independent reference parser applied to the bytes actually
delivered."""
import copy
import io
import random

from sim import ref
from sim import world as W
from sim.core import H, Violation, digest

ID = "C20"
LEVEL = "exploration"
BATCH = 60
QUICK_WORLDS = 2400
THOROUGH_BUDGET_S = 600
RUN_TIMEOUT = 60
RULE = ("world = file description (1-4 blocks; 1-3 header lines; #S lines incl. duplicates and single-node ones; blank and comment lines; "
        "zero-vertex blocks; int/float/exponent weights) rendered to bytes on the simulated disk, plus one storage delivery kind from "
        "{faithful, torn (truncated at a byte), line lost, line duplicated, byte flipped, CRLF, no final newline, 2-/4-token edge line, "
        "non-numeric weight, non-numeric vertex count, constraint edge absent, open raises OSError, readlines raises OSError}.  distinct = "
        "digest of delivered bytes; non-trivial = a fault kind other than faithful actually changed the delivered bytes or raised.")
COMPONENTS = {"real": ["graphutils.read_graphs / read_graph", "stDiGraph.get_width for the stored width", "Python text-mode decoding and line splitting (io.TextIOWrapper)"],
              "stub": ["the disk: graphutils.open is an in-memory file system with fault injection"], "not_run": []}
ASSUMPTIONS = ["files are UTF-8; 'numeric' means accepted by Python's float()/int()", "graphs without source or sink have no width: only required not to be returned"]

KINDS = ["faithful", "faithful", "torn", "line_lost", "line_dup", "byte_flip", "crlf", "no_final_newline",
         "edge_2_tokens", "edge_4_tokens", "bad_weight", "bad_vertex_count", "constraint_absent", "open_oserror", "readlines_oserror"]
NODES = ["a", "b", "c", "d", "e", "s", "t", "x1", "y", "0", "1", "2", "n_3", "A", "utg#1", "n#", "p:2"]     # a '#' inside a name is not a comment


def gen_world(seed, tier):
    rng = random.Random(H(seed, "c20"))
    blocks = []
    prev_ns = None
    for b in range(rng.randint(1, 4)):
        n = rng.randint(2, 6)
        ns = rng.sample(NODES, n)
        if prev_ns is not None and rng.random() < 0.35:
            ns = list(prev_ns)          # the next block is a variation over the same node names (same #S lines may recur)
            n = len(ns)
        prev_ns = ns
        edges = []
        if rng.random() < 0.85:
            # DAG-ish with guaranteed source and sink
            for i in range(n):
                for j in range(i + 1, n):
                    if rng.random() < 0.4:
                        edges.append([ns[i], ns[j]])
            if not edges:
                edges.append([ns[0], ns[1]])
            if rng.random() < 0.25 and n > 2:
                edges.append([ns[2], ns[1]])      # a cycle among inner nodes, keeps ns[0] a source
                if [ns[1], ns[2]] not in edges:
                    edges.append([ns[1], ns[2]])
        else:
            for i in range(n):
                edges.append([ns[i], ns[(i + 1) % n]])   # a pure cycle: no source, no sink
        rng.shuffle(edges)
        wfmt = rng.choice(["int", "float", "exp", "mixed"])
        es = []
        for u, v in edges:
            f = wfmt if wfmt != "mixed" else rng.choice(["int", "float", "exp"])
            if f == "int":
                w = str(rng.randint(0, 99))
            elif f == "float":
                w = "%.3f" % rng.uniform(0, 50)
            else:
                w = "%.2e" % rng.uniform(0.1, 5000)
            es.append([u, v, w])
        if rng.random() < 0.08 and es:
            es.append([es[0][0], es[0][1], str(rng.randint(1, 9))])       # a duplicated edge line: last one wins
        headers = ["graph number = %d name = g%d" % (b, rng.randint(0, 99))]
        if blocks and rng.random() < 0.25:
            # ids are whatever the first header line says: generic or repeated ones ("# graph") are legal
            headers = [blocks[-1]["headers"][0]]
        for _ in range(rng.randint(0, 2)):
            headers.append(rng.choice(["any other header line", "k = 3", "", "# double hash"]))
        cons = []
        for _ in range(rng.randint(0, 3)):
            # follow edges to build a node sequence
            if not edges:
                break
            u, v = rng.choice(edges)
            seq = [u, v]
            for _ in range(rng.randint(0, 3)):
                nxt = [y for x, y in edges if x == seq[-1]]
                if not nxt:
                    break
                seq.append(rng.choice(nxt))
            cons.append(seq)
        if cons and rng.random() < 0.3:
            cons.append(list(cons[0]))             # duplicate #S line
        if rng.random() < 0.15:
            cons.append([rng.choice(ns)])          # single node: no edge
        zero = rng.random() < 0.07
        blocks.append({"headers": headers, "constraints": cons, "n": 0 if zero else n, "edges": [] if zero else es,
                       "blank_after_header": rng.random() < 0.2, "blank_between": rng.random() < 0.2,
                       "cons_first": rng.random() < 0.3, "indent": rng.random() < 0.1,
                       "cons_before_id": rng.random() < 0.15})
    return {"blocks": blocks, "kind": rng.choice(KINDS), "fseed": rng.randrange(1 << 30), "reads": rng.choice([1, 1, 2, 3]),
            "leading_junk": rng.random() < 0.1, "trailing_blank": rng.random() < 0.2}


def plans(world, info, seed, tier):
    return [{"world": world}]


def render(world):
    lines = []
    if world.get("leading_junk"):
        lines.append("this line precedes the first header")
        lines.append("")
    for b in world["blocks"]:
        hl = ["# " + h if h else "#" for h in b["headers"]]
        cl = ["#S " + " ".join(c) for c in b["constraints"]]
        if b.get("cons_before_id"):
            head = cl + hl                 # '#S' lines may stand anywhere among the header lines, also before the id line
        elif b.get("cons_first") and len(hl) > 1:
            head = hl[:1] + cl + hl[1:]
        else:
            head = hl + cl
        if b.get("indent"):
            head = ["  " + x for x in head]
        lines += head
        if b.get("blank_after_header"):
            lines.append("")
        lines.append(str(b["n"]))
        for i, (u, v, w) in enumerate(b["edges"]):
            lines.append("%s %s %s" % (u, v, w))
            if b.get("blank_between") and i == 0:
                lines.append("   ")
    if world.get("trailing_blank"):
        lines.append("")
    return ("\n".join(lines) + "\n").encode("utf-8")


def deliver(world, data):
    """The storage fault layer: returns (bytes or None, io_fault or None, changed?)."""
    rng = random.Random(world["fseed"])
    kind = world["kind"]
    lines = data.decode("utf-8").split("\n")
    if lines and lines[-1] == "":
        lines.pop()

    def join(ls, final=True):
        return ("\n".join(ls) + ("\n" if final else "")).encode("utf-8")
    edge_idx = [i for i, l in enumerate(lines) if len(l.split()) == 3 and not l.lstrip().startswith("#")]
    if "at" in world:
        at = world["at"]
    else:
        at = None
    if kind == "faithful":
        return data, None
    if kind == "torn":
        cut = at if at is not None else rng.randrange(0, len(data) + 1)
        return data[:cut], None
    if kind == "line_lost":
        i = at if at is not None else rng.randrange(len(lines))
        return join(lines[:i] + lines[i + 1:]), None
    if kind == "line_dup":
        i = at if at is not None else rng.randrange(len(lines))
        return join(lines[:i + 1] + [lines[i]] + lines[i + 1:]), None
    if kind == "byte_flip":
        i = at if at is not None else rng.randrange(len(data))
        bit = 1 << rng.randrange(8)
        return data[:i] + bytes([data[i] ^ bit]) + data[i + 1:], None
    if kind == "crlf":
        return data.replace(b"\n", b"\r\n"), None
    if kind == "no_final_newline":
        return data[:-1] if data.endswith(b"\n") else data, None
    if kind in ("edge_2_tokens", "edge_4_tokens", "bad_weight") and edge_idx:
        i = edge_idx[(at if at is not None else rng.randrange(len(edge_idx))) % len(edge_idx)]
        toks = lines[i].split()
        if kind == "edge_2_tokens":
            lines[i] = " ".join(toks[:2])
        elif kind == "edge_4_tokens":
            lines[i] = " ".join(toks + [rng.choice(["7", "7", "#", "# 5", "x"])])
        else:
            lines[i] = " ".join(toks[:2] + [rng.choice(["abc", "1,5", "--3", "1.2.3", "0x1f", "", "4#", "4#1"]) or "x"])
        return join(lines), None
    if kind == "bad_vertex_count":
        cand = [i for i, l in enumerate(lines) if l.strip().isdigit()]
        if cand:
            i = cand[(at if at is not None else rng.randrange(len(cand))) % len(cand)]
            lines[i] = rng.choice(["five", "3.5", "n=4", "4 nodes"])
            return join(lines), None
    if kind == "constraint_absent":
        cand = [i for i, l in enumerate(lines) if l.lstrip().startswith("#S") and len(l.split()) >= 3]
        if cand:
            i = cand[(at if at is not None else rng.randrange(len(cand))) % len(cand)]
            lines[i] = lines[i] + " zz_absent"
            return join(lines), None
    if kind == "open_oserror":
        return None, "open"
    if kind == "readlines_oserror":
        return data, "readlines"
    return data, None


class SimFS:
    """In-memory disk behind ``graphutils.open``."""

    def __init__(self):
        self.files = {}
        self.io_fault = {}
        self.opened = 0

    def write(self, name, data):
        self.files[name] = data

    def open(self, name, mode="r", *a, **kw):
        self.opened += 1
        fault = self.io_fault.get(name)
        if fault == "open" or name not in self.files:
            raise FileNotFoundError(2, "No such file or directory (simulated)", name)
        f = io.TextIOWrapper(io.BytesIO(self.files[name]), encoding="utf-8", newline=None)
        if fault == "readlines":
            def bad(*a, **k):
                raise OSError(5, "Input/output error (simulated)")
            f.readlines = bad
            f.read = bad
        return f


# ---------------------------------------------------------------- reference parser
class Reject(Exception):
    pass


def ref_parse(data):
    """Reference parser of the documented format, applied to raw bytes.
    Returns a list of graph descriptions or raises Reject."""
    try:
        text = data.decode("utf-8")
    except UnicodeDecodeError:
        raise Reject("not utf-8")
    # text-mode line splitting: \n, \r\n and \r only
    text = text.replace("\r\n", "\n").replace("\r", "\n")
    lines = text.split("\n")
    if lines and lines[-1] == "":
        lines.pop()
    is_header = lambda l: l.lstrip().startswith("#")
    blocks = []
    cur = None
    in_head = False
    for l in lines:
        if is_header(l):
            if cur is None or not in_head:
                cur = {"head": [], "body": []}
                blocks.append(cur)
                in_head = True
            cur["head"].append(l)
        else:
            in_head = False
            if cur is not None:
                cur["body"].append(l)
    out = []
    for b in blocks:
        headers = []
        cons = []
        seen = set()
        for l in b["head"]:
            s = l.lstrip()
            if s.startswith("#S"):
                nodes = s[2:].split()
                if nodes and tuple(nodes) not in seen:
                    seen.add(tuple(nodes))
                    es = list(zip(nodes[:-1], nodes[1:]))
                    if es:
                        cons.append(es)
            else:
                headers.append(s.lstrip("#").strip())
        body = list(b["body"])
        while body and body[0].strip() == "":
            body.pop(0)
        if not body:
            raise Reject("missing vertex count")
        try:
            n = int(body[0].strip())
        except ValueError:
            raise Reject("bad vertex count")
        gid = headers[0] if headers else None
        if n == 0:
            out.append({"id": gid, "edges": {}, "constraints": cons, "zero": True})
            continue
        edges = {}
        order = []
        for l in body[1:]:
            if l.strip() == "":
                continue
            toks = l.split()
            if len(toks) != 3:
                raise Reject("edge line needs 3 tokens")
            try:
                w = float(toks[2])
            except ValueError:
                raise Reject("bad weight")
            if (toks[0], toks[1]) not in edges:
                order.append((toks[0], toks[1]))
            edges[(toks[0], toks[1])] = w
        for c in cons:
            for e in c:
                if e not in edges:
                    raise Reject("constraint edge absent")
        nodes = []
        for u, v in order:
            for x in (u, v):
                if x not in nodes:
                    nodes.append(x)
        has_src = any(all(v != x for (_, v) in edges) for x in nodes)
        has_snk = any(all(u != x for (u, _) in edges) for x in nodes)
        out.append({"id": gid, "edges": edges, "constraints": cons, "zero": False, "nodes": nodes,
                    "has_source_and_sink": bool(nodes) and has_src and has_snk})
    return out


def dag_width(edges):
    """Max edge antichain of a DAG by brute force (None if cyclic or too large)."""
    es = list(edges)
    if len(es) > 12:
        return None
    succ = {}
    for u, v in es:
        succ.setdefault(u, []).append(v)
    reach = {}
    nodes = {x for e in es for x in e}
    for x in nodes:
        reach[x] = ref.reachable(succ, x)
    for x in nodes:
        if any(x in reach[y] and y != x for y in succ.get(x, []) ) and any(x in reach[y] for y in succ.get(x, [])):
            return None
    best = 0
    m = len(es)
    for mask in range(1, 1 << m):
        sel = [es[i] for i in range(m) if mask >> i & 1]
        if len(sel) <= best:
            continue
        ok = True
        for i in range(len(sel)):
            for j in range(len(sel)):
                if i != j and sel[j][0] in reach[sel[i][1]]:
                    ok = False
                    break
            if not ok:
                break
        if ok:
            best = len(sel)
    return best


def execute(spec):
    world = spec["world"]
    from flowpaths.utils import graphutils as gu
    sim = W.SimWorld(world["fseed"], {})
    fs = SimFS()
    data = render(world)
    delivered, iofault = deliver(world, data)
    name = "/simdisk/graphs.graph"
    if delivered is not None:
        fs.write(name, delivered)
    if iofault:
        fs.io_fault[name] = iofault
    vs = []

    def V(clause, detail):
        vs.append(Violation(ID, "C20." + clause, world["kind"], detail))
    got = None
    exc = None
    old_open = getattr(gu, "open", None)
    gu.open = fs.open
    repeat_diff = None
    try:
        with W.active(sim):
            try:
                got = gu.read_graphs(name)
            except BaseException as e:
                exc = e
            # the history dimension: reading the same delivered bytes again gives the same answer
            for _ in range(world.get("reads", 1) - 1):
                try:
                    again = gu.read_graphs(name)
                    aexc = None
                except BaseException as e2:
                    again, aexc = None, e2
                if (exc is None) != (aexc is None) or (exc is not None and type(exc) is not type(aexc)):
                    repeat_diff = {"first": type(exc).__name__ if exc else "ok", "again": type(aexc).__name__ if aexc else "ok"}
                elif exc is None:
                    def view(gs):
                        # (the id of a block without a plain header line is an object address: not compared)
                        return [(sorted((u, v, d.get("flow")) for u, v, d in G.edges(data=True)), G.graph.get("id") if not str(G.graph.get("id")).isdigit() else None,
                                 [list(map(tuple, c)) for c in G.graph.get("constraints", [])], G.graph.get("n"), G.graph.get("m"), G.graph.get("w")) for G in gs]
                    if view(got) != view(again):
                        repeat_diff = {"first": str(view(got))[:300], "again": str(view(again))[:300]}
    finally:
        if old_open is None:
            try:
                del gu.open
            except AttributeError:
                pass
        else:
            gu.open = old_open
    changed = iofault is not None or delivered != data
    outcome_kind = None
    if iofault:
        if not isinstance(exc, OSError):
            V("io_error_not_propagated", {"fault": iofault, "got": type(exc).__name__ if exc else "returned %d graphs" % len(got)})
        outcome_kind = "io_error"
    else:
        try:
            exp = ref_parse(delivered)
            rej = None
        except Reject as r:
            exp, rej = None, str(r)
        if rej is not None:
            outcome_kind = "rejected"
            if repeat_diff is not None:
                V("second_read_differs", repeat_diff)
            if exc is None:
                V("malformed_accepted", {"reason": rej, "returned_graphs": len(got), "delivered": delivered.decode("utf-8", "replace")[:400]})
            elif not isinstance(exc, ValueError):
                V("wrong_exception_type", {"reason": rej, "exc": type(exc).__name__, "msg": str(exc)[:200]})
        else:
            undefined = any((not g["zero"]) and not g["has_source_and_sink"] for g in exp)
            if repeat_diff is not None and not undefined:
                # (graphs without source or sink are outside the property: stDiGraph's own source/sink check depends on
                #  id(self) there - out_edges("source_<id>") iterates the *characters* of the name when the node is absent)
                V("second_read_differs", repeat_diff)
            if undefined:
                outcome_kind = "no_source_or_sink"
                if exc is not None and not isinstance(exc, ValueError):
                    V("wrong_exception_type", {"reason": "graph without source/sink", "exc": type(exc).__name__, "msg": str(exc)[:200]})
                # if it was returned anyway, it must still be the right graph: fall through when no exception
            if exc is not None and not undefined:
                outcome_kind = "accepted"
                V("wellformed_rejected", {"exc": type(exc).__name__, "msg": str(exc)[:200], "delivered": delivered.decode("utf-8", "replace")[:400]})
            elif exc is None:
                outcome_kind = outcome_kind or "accepted"
                if len(got) != len(exp):
                    V("block_count", {"expected": len(exp), "got": len(got)})
                else:
                    for gi, (G, g) in enumerate(zip(got, exp)):
                        gedges = {(u, v): d.get("flow") for u, v, d in G.edges(data=True)}
                        if gedges != g["edges"]:
                            V("edges_differ", {"graph": gi, "expected": sorted(map(str, g["edges"].items()))[:6], "got": sorted(map(str, gedges.items()))[:6]})
                            break
                        if g["id"] is not None and G.graph.get("id") != g["id"]:
                            V("id_differs", {"graph": gi, "expected": g["id"], "got": G.graph.get("id")})
                            break
                        if [list(map(tuple, c)) for c in G.graph.get("constraints", [])] != g["constraints"]:
                            V("constraints_differ", {"graph": gi, "expected": g["constraints"], "got": G.graph.get("constraints")})
                            break
                        if not g["zero"]:
                            if G.graph.get("n") != G.number_of_nodes() or G.graph.get("m") != G.number_of_edges() or G.graph.get("n") != len(g["nodes"]):
                                V("counts_differ", {"graph": gi, "n": G.graph.get("n"), "m": G.graph.get("m"), "nodes": len(g["nodes"]), "edges": len(g["edges"])})
                                break
                            wd = dag_width(g["edges"].keys())
                            if wd is not None and G.graph.get("w") != wd:
                                V("width_differs", {"graph": gi, "stored": G.graph.get("w"), "brute_force": wd})
                                break
                # faithful delivery: also against the generating description
                if world["kind"] in ("faithful", "crlf", "no_final_newline") and not vs:
                    desc = world["blocks"]
                    if len(desc) != len(got):
                        V("description_block_count", {"described": len(desc), "got": len(got)})
                    else:
                        for gi, (G, b) in enumerate(zip(got, desc)):
                            de = {}
                            for u, v, wv in b["edges"]:
                                de[(u, v)] = float(wv)
                            gedges = {(u, v): d.get("flow") for u, v, d in G.edges(data=True)}
                            if de != gedges:
                                V("description_edges_differ", {"graph": gi})
                                break
                            if G.graph.get("id") != b["headers"][0].strip():
                                V("description_id_differs", {"graph": gi, "described": b["headers"][0], "got": G.graph.get("id")})
                                break
                            dc = []
                            seen = set()
                            for c in b["constraints"]:
                                if tuple(c) in seen:
                                    continue
                                seen.add(tuple(c))
                                es = list(zip(c[:-1], c[1:]))
                                if es:
                                    dc.append(es)
                            if [list(map(tuple, c)) for c in G.graph.get("constraints", [])] != dc:
                                V("description_constraints_differ", {"graph": gi})
                                break
    seen, uniq = set(), []
    for v in vs:
        if v.key not in seen:
            seen.add(v.key)
            uniq.append(dict(v))
    return {"violations": uniq, "digest": digest([delivered.decode("latin1") if delivered else None, iofault, type(exc).__name__ if exc else len(got or [])]),
            "sig": digest([delivered.decode("latin1") if delivered else None, iofault]),
            "nontrivial": bool(changed and world["kind"] != "faithful"),
            "fired": {world["kind"]: 1} if changed else {"faithful": 1},
            "probes": {"outcome:" + str(outcome_kind): 1}, "sim_s": 0.0, "invocations": 0,
            "counters": {"kind:" + world["kind"]: 1, "outcome:" + str(outcome_kind): 1, "bytes": len(data)},
            "summary": {"outcome": outcome_kind, "exception": type(exc).__name__ if exc else None, "graphs": len(got) if got is not None else None}}


def sample_view(spec, outcome):
    w = spec["world"]
    d = render(w)
    dl, io_ = deliver(w, d)
    return {"kind": w["kind"], "written": d.decode("utf-8"), "delivered": dl.decode("utf-8", "replace") if dl is not None else None,
            "io_fault": io_, "summary": outcome.get("summary")}


def shrink(spec):
    w = spec["world"]
    if len(w["blocks"]) > 1:
        for i in range(len(w["blocks"])):
            c = copy.deepcopy(spec); del c["world"]["blocks"][i]; yield c
    for bi, b in enumerate(w["blocks"]):
        if len(b["edges"]) > 1:
            for i in range(len(b["edges"])):
                c = copy.deepcopy(spec); del c["world"]["blocks"][bi]["edges"][i]; yield c
        if b["constraints"]:
            for i in range(len(b["constraints"])):
                c = copy.deepcopy(spec); del c["world"]["blocks"][bi]["constraints"][i]; yield c
        if len(b["headers"]) > 1:
            c = copy.deepcopy(spec); c["world"]["blocks"][bi]["headers"] = b["headers"][:1]; yield c
        for k in ("blank_after_header", "blank_between", "cons_first", "indent"):
            if b.get(k):
                c = copy.deepcopy(spec); c["world"]["blocks"][bi][k] = False; yield c
    for k in ("leading_junk", "trailing_blank"):
        if w.get(k):
            c = copy.deepcopy(spec); c["world"][k] = False; yield c
    if w["kind"] != "faithful":
        c = copy.deepcopy(spec); c["world"]["kind"] = "faithful"; yield c
