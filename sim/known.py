"""Known findings: read-only at run time.  A violation is suppressed to a KNOWN-FINDING
line only if property, clause and the finding's structural predicate all match."""
import json
import os
import re

PATH = os.path.join(os.path.dirname(os.path.dirname(os.path.abspath(__file__))), "known_findings.json")


def load():
    if not os.path.exists(PATH):
        return []
    return json.load(open(PATH)).get("findings", [])


def _pred(name, violation, spec):
    fn = PREDICATES.get(name)
    return bool(fn and fn(violation, spec))


PREDICATES = {}


def predicate(fn):
    PREDICATES[fn.__name__] = fn
    return fn


def match(findings, violation, spec):
    for f in findings:
        if f["property"] != violation["property"] or f["clause"] != violation["clause"]:
            continue
        m = f.get("match", {})
        if "fingerprint" in m and not re.fullmatch(m["fingerprint"], str(violation["fingerprint"])):
            continue
        if "class" in m and spec.get("world", {}).get("class") != m["class"]:
            continue
        if "predicate" in m and not _pred(m["predicate"], violation, spec):
            continue
        return f
    return None


@predicate
def cyclic_fractional_multiplicity_bound(violation, spec):
    """A model for graphs with cycles, float weights, and some positive flow value below 1:
    the per-edge repetition bounds the walk models derive from flow values are then fractional."""
    w = spec.get("world", {})
    cyc = ("MinFlowDecompCycles", "kFlowDecompCycles", "kMinPathErrorCycles", "kLeastAbsErrorsCycles", "kPathCoverCycles", "MinPathCoverCycles")
    if w.get("class") not in cyc:
        return False
    if w.get("args", {}).get("weight_type") != "float":
        return False
    g = w.get("graph") or {}
    vals = [e[2] for e in g.get("edges", []) if isinstance(e[2], (int, float))]
    vals += [x[1] for x in g.get("node_weights", []) if isinstance(x[1], (int, float))]
    return any(0 < v < 1 for v in vals)


@predicate
def cyclic_error_model_with_ignored_elements(violation, spec):
    w = spec.get("world", {})
    return w.get("class") in ("kMinPathErrorCycles", "kLeastAbsErrorsCycles") and bool(w.get("args", {}).get("elements_to_ignore"))


@predicate
def cyclic_flow_decomp_guessed_weights_finds_fewer_walks(violation, spec):
    w = spec.get("world", {})
    if w.get("class") not in ("MinFlowDecompCycles",):
        return False
    if not spec.get("flags", {}).get("optimize_with_guessed_weights"):
        return False
    d = violation.get("detail") or {}
    try:
        return float(d.get("objective")) < float(d.get("reference"))
    except Exception:
        return False


@predicate
def isolated_node_one_node_routes_dropped(violation, spec):
    """One of the models whose get_solution() removes "empty" routes by default (k-min-path-error / k-least-absolute-errors,
    DAG or cyclic, and kFlowDecompCycles) on an edge-weighted graph that has an isolated node, returning fewer than k routes."""
    w = spec.get("world", {})
    if w.get("class") not in ("kMinPathError", "kLeastAbsErrors", "kMinPathErrorCycles", "kLeastAbsErrorsCycles", "kFlowDecompCycles"):
        return False
    if w.get("args", {}).get("flow_attr_origin") == "node":
        return False
    g = w.get("graph") or {}
    touched = {x for e in g.get("edges", []) for x in e[:2]}
    if not any(x not in touched for x in g.get("nodes", [])):
        return False
    d = violation.get("detail") or {}
    try:
        return int(d.get("n")) < int(d.get("k"))
    except Exception:
        return False
