"""Runner: seeded search over simulated runs, fork-per-run isolation, shrinking, replay,
known findings and evidence.  See DESIGN.md sections 2.1, 2.10, 2.11, 2.12."""
import argparse
import importlib
import json
import os
import select
import signal
import subprocess
import sys
import time
import traceback
import threading

from .core import H, canon

VERIF = os.path.dirname(os.path.dirname(os.path.abspath(__file__)))
# VERIF_OUT redirects evidence and replays (own mutation testing against a scratch worktree)
OUT = os.environ.get("VERIF_OUT", VERIF)
PY = "/venv/bin/python"
MAIN = os.path.join(VERIF, "sim_main.py")


def load_prop(pid):
    return importlib.import_module("props." + pid.lower())


# --------------------------------------------------------------------------
# child execution
# --------------------------------------------------------------------------

def run_in_child(fn, timeout):
    """Run fn() in a forked child; return its JSON-able result, or a dict describing
    a harness error / timeout.  The parent never touches HiGHS."""
    r, w = os.pipe()
    sys.stdout.flush()
    sys.stderr.flush()
    pid = os.fork()
    if pid == 0:
        os.close(r)
        code = 0
        try:
            try:
                import faulthandler
                faulthandler.dump_traceback_later(max(1, timeout - 1), exit=False)
            except Exception:
                pass
            try:
                res = fn()
            except BaseException as e:  # harness trouble, never a verdict
                res = {"harness_error": "".join(traceback.format_exception(type(e), e, e.__traceback__))[-4000:]}
            data = json.dumps(canon_keep(res)).encode()
            with os.fdopen(w, "wb") as f:
                f.write(data)
        except BaseException:
            code = 3
        finally:
            os._exit(code)
    os.close(w)
    chunks = []
    deadline = time.time() + timeout
    timed_out = False
    while True:
        left = deadline - time.time()
        if left <= 0:
            timed_out = True
            break
        rl, _, _ = select.select([r], [], [], min(left, 1.0))
        if rl:
            b = os.read(r, 1 << 16)
            if not b:
                break
            chunks.append(b)
    os.close(r)
    if timed_out:
        try:
            os.kill(pid, signal.SIGKILL)
        except ProcessLookupError:
            pass
        os.waitpid(pid, 0)
        return {"discard": "wall timeout %ds" % timeout}
    os.waitpid(pid, 0)
    raw = b"".join(chunks)
    if not raw:
        return {"harness_error": "child produced no output"}
    try:
        return json.loads(raw)
    except Exception as e:
        return {"harness_error": "bad child output: %r" % (e,)}


def canon_keep(obj):
    """json-safe, but keeps dict/list structure and plain values as they are."""
    if isinstance(obj, dict):
        return {str(k): canon_keep(v) for k, v in obj.items()}
    if isinstance(obj, (list, tuple)):
        return [canon_keep(x) for x in obj]
    if isinstance(obj, (set, frozenset)):
        return canon(obj)
    if isinstance(obj, float):
        if obj != obj or obj in (float("inf"), float("-inf")):
            return repr(obj)
        return obj
    if obj is None or isinstance(obj, (bool, int, str)):
        return obj
    return canon(obj)


def hashseed_for(master, pid, batch):
    return H(master, pid, "hashseed", batch) % (2 ** 32)


def execute_spec(prop, spec):
    from . import world as W
    W.install()
    return prop.execute(spec)


# --------------------------------------------------------------------------
# batch role
# --------------------------------------------------------------------------

def batch_main(pid, master, tier, start, count, hashseed):
    prop = load_prop(pid)
    from . import world as W
    W.install()
    timeout = getattr(prop, "RUN_TIMEOUT", 120)
    out = sys.stdout
    if getattr(prop, "NEEDS_REFSERVER", False):
        from . import refserver
        refserver.start(hashseed + 7919)
    if start == 0:
        # pinned regression worlds (e.g. the witnesses of listed known findings) run with every check
        for n, spec in enumerate(getattr(prop, "PINNED", [])):
            spec = json.loads(json.dumps(spec))
            spec["_meta"] = {"property": pid, "master": master, "index": -(n + 1), "plan": 0, "hashseed": hashseed, "tier": tier, "pinned": True}
            outcome = run_in_child(lambda: prop.execute(spec), timeout)
            out.write("J " + json.dumps({"i": -(n + 1), "p": 0, "outcome": outcome, "spec": spec}) + "\n")
            out.flush()
    for i in range(start, start + count):
        wseed = H(master, pid, "world", i)
        try:
            world = prop.gen_world(wseed, tier)
            info = None
            if hasattr(prop, "probe"):
                info = run_in_child(lambda: prop.probe(world), timeout)
                if isinstance(info, dict) and ("harness_error" in info or "discard" in info):
                    out.write("J " + json.dumps({"i": i, "p": -1, "outcome": info, "spec": {"world": world}}) + "\n")
                    out.flush()
                    continue
            specs = prop.plans(world, info, wseed, tier)
        except Exception as e:
            out.write("J " + json.dumps({"i": i, "p": -1, "outcome": {"harness_error": traceback.format_exc()[-3000:]}}) + "\n")
            out.flush()
            continue
        for p, spec in enumerate(specs):
            spec["_meta"] = {"property": pid, "master": master, "index": i, "plan": p,
                             "hashseed": hashseed, "tier": tier}
            outcome = run_in_child(lambda: prop.execute(spec), timeout)
            rec = {"i": i, "p": p, "outcome": outcome}
            if outcome.get("violations") or outcome.get("harness_error") or (i - start < 1 and p < 2) or i < 3:
                rec["spec"] = spec
            out.write("J " + json.dumps(rec) + "\n")
            out.flush()


# --------------------------------------------------------------------------
# single-spec role (replay / verification in a fresh interpreter)
# --------------------------------------------------------------------------

def one_main(specfile):
    spec = json.load(open(specfile))
    pid = spec["_meta"]["property"]
    prop = load_prop(pid)
    from . import world as W
    W.install()
    if getattr(prop, "NEEDS_REFSERVER", False):
        from . import refserver
        refserver.start(spec["_meta"]["hashseed"] + 7919)
    outcome = run_in_child(lambda: prop.execute(spec), getattr(prop, "RUN_TIMEOUT", 120))
    sys.stdout.write("J " + json.dumps({"outcome": outcome}) + "\n")


def run_one_fresh(specfile):
    spec = json.load(open(specfile))
    hs = spec["_meta"]["hashseed"]
    env = dict(os.environ)
    env["PYTHONHASHSEED"] = str(hs)
    cp = subprocess.run([PY, "-B", MAIN, "--role", "one", "--spec", specfile], env=env,
                        capture_output=True, text=True, timeout=900)
    for line in cp.stdout.splitlines():
        if line.startswith("J "):
            return json.loads(line[2:])["outcome"]
    return {"harness_error": "no outcome from fresh interpreter: " + cp.stderr[-2000:]}


# --------------------------------------------------------------------------
# shrink role
# --------------------------------------------------------------------------

def shrink_main(specfile, outfile, clause, budget):
    spec = json.load(open(specfile))
    pid = spec["_meta"]["property"]
    prop = load_prop(pid)
    from . import world as W
    W.install()
    if getattr(prop, "NEEDS_REFSERVER", False):
        from . import refserver
        refserver.start(spec["_meta"]["hashseed"] + 7919)
    timeout = getattr(prop, "RUN_TIMEOUT", 120)
    t0 = time.time()

    def fails(s):
        o = run_in_child(lambda: prop.execute(s), timeout)
        return any(v["clause"] == clause for v in o.get("violations", []))

    best = spec
    steps = 0
    improved = True
    while improved and time.time() - t0 < budget:
        improved = False
        for cand in prop.shrink(best):
            if time.time() - t0 > budget:
                break
            cand["_meta"] = best["_meta"]
            steps += 1
            if fails(cand):
                best = cand
                improved = True
                break
    best["_meta"] = dict(best["_meta"], shrink_steps=steps)
    json.dump(best, open(outfile, "w"), indent=1, sort_keys=True)


# --------------------------------------------------------------------------
# launcher
# --------------------------------------------------------------------------

def _spawn_batch(pid, master, tier, start, count, batch_no, results, errors, timeout):
    hs = hashseed_for(master, pid, batch_no)
    env = dict(os.environ)
    env["PYTHONHASHSEED"] = str(hs)
    cmd = [PY, "-B", MAIN, "--role", "batch", "--prop", pid, "--seed", str(master), "--tier", tier,
           "--start", str(start), "--count", str(count), "--hashseed", str(hs)]
    try:
        cp = subprocess.run(cmd, env=env, capture_output=True, text=True, timeout=timeout)
        got = 0
        for line in cp.stdout.splitlines():
            if line.startswith("J "):
                results.append(json.loads(line[2:]))
                got += 1
        if cp.returncode != 0:
            errors.append("batch %d exit %d: %s" % (batch_no, cp.returncode, cp.stderr[-1500:]))
    except subprocess.TimeoutExpired as e:
        out = e.stdout or ""
        if isinstance(out, bytes):
            out = out.decode(errors="replace")
        for line in out.splitlines():
            if line.startswith("J "):
                try:
                    results.append(json.loads(line[2:]))
                except Exception:
                    pass
        errors.append("batch %d timed out after %ds" % (batch_no, timeout))


def launch(pid, tier, master, workers, worlds=None, budget=None, digests_out=None, quiet=False):
    prop = load_prop(pid)
    t0 = time.time()
    bs = getattr(prop, "BATCH", 8)
    if worlds is None:
        worlds = prop.QUICK_WORLDS if tier == "quick" else None
    if tier == "thorough" and budget is None:
        budget = float(os.environ.get("VERIF_BUDGET_S", getattr(prop, "THOROUGH_BUDGET_S", 480)))
    cap = float(os.environ.get("VERIF_QUICK_CAP_S", getattr(prop, "QUICK_CAP_S", 240)))
    btimeout = getattr(prop, "BATCH_TIMEOUT", 900)
    results, errors = [], []
    lock = threading.Lock()
    state = {"next": 0}

    def more():
        with lock:
            b = state["next"]
            el = time.time() - t0
            if worlds is not None:
                if b * bs >= worlds:
                    return None
                if tier == "quick" and el > cap:
                    return None
                cnt = min(bs, worlds - b * bs)
            else:
                if el > budget:
                    return None
                cnt = bs
            state["next"] = b + 1
            return b, cnt

    def worker():
        while True:
            m = more()
            if m is None:
                return
            b, cnt = m
            local, lerr = [], []
            _spawn_batch(pid, master, tier, b * bs, cnt, b, local, lerr, btimeout)
            with lock:
                results.extend(local)
                errors.extend(lerr)

    threads = [threading.Thread(target=worker, daemon=True) for _ in range(workers)]
    for t in threads:
        t.start()
    for t in threads:
        t.join()
    results.sort(key=lambda r: (r["i"], r["p"]))
    wall_search = time.time() - t0

    if digests_out:
        # determinism self-test mode: dump per-run digests, do not touch evidence or replays
        json.dump({"%d.%d" % (r["i"], r["p"]): (r["outcome"].get("digest") or str(sorted(r["outcome"].keys()))) for r in results},
                  open(digests_out, "w"), indent=0, sort_keys=True)
        nv = sum(1 for r in results if r["outcome"].get("violations"))
        print("%s digests=%d violations=%d errors=%d" % (pid, len(results), nv, len(errors)))
        return 0

    return finish(prop, pid, tier, master, results, errors, t0, wall_search, quiet, state["next"] * bs)


def finish(prop, pid, tier, master, results, errors, t0, wall_search, quiet, worlds_dispatched):
    from collections import Counter
    from . import known
    fired, probes = Counter(), Counter()
    sigs = set()
    evals = discarded = herr = 0
    sim_s = 0.0
    invocations = 0
    samples = []
    viol = {}
    extra = Counter()
    harness_msgs = []
    for r in results:
        o = r["outcome"]
        if "harness_error" in o:
            herr += 1
            if len(harness_msgs) < 3:
                harness_msgs.append(o["harness_error"][-800:])
            continue
        if o.get("discard"):
            discarded += 1
            extra["discard:" + str(o["discard"])[:40]] += 1
            continue
        if r["p"] < 0:
            continue
        evals += 1
        fired.update(o.get("fired", {}))
        probes.update(o.get("probes", {}))
        extra.update(o.get("counters", {}))
        sim_s += o.get("sim_s", 0.0)
        invocations += o.get("invocations", 0)
        if o.get("nontrivial") and o.get("sig") is not None:
            sigs.add(o["sig"])
        if "spec" in r and len(samples) < 3 and not o.get("violations"):
            samples.append(prop.sample_view(r["spec"], o) if hasattr(prop, "sample_view") else {"spec": r["spec"]})
        for v in o.get("violations", []):
            key = (v["property"], v["clause"], v["fingerprint"])
            if key not in viol:
                viol[key] = (r, v)
    total = evals + discarded + herr
    os.makedirs(os.path.join(OUT, "replays", pid), exist_ok=True)

    reported = []
    known_lines = []
    det_errors = 0
    findings = known.load()
    for key in sorted(viol)[:8]:
        r, v = viol[key]
        spec = r["spec"]
        base = os.path.join(OUT, "replays", pid, "%s-%d-%d" % (v["clause"].replace(".", "_"), r["i"], r["p"]))
        raw = base + ".raw.json"
        spec["_violation"] = v
        json.dump(spec, open(raw, "w"), indent=1, sort_keys=True)
        mini = base + ".json"
        path = raw
        if hasattr(prop, "shrink"):
            env = dict(os.environ)
            env["PYTHONHASHSEED"] = str(spec["_meta"]["hashseed"])
            try:
                subprocess.run([PY, "-B", MAIN, "--role", "shrink", "--spec", raw, "--out", mini,
                                "--clause", v["clause"], "--budget", str(getattr(prop, "SHRINK_BUDGET_S", 60))],
                               env=env, capture_output=True, text=True, timeout=600)
            except subprocess.TimeoutExpired:
                pass
        ok = False
        vfound = None
        if os.path.exists(mini):
            o2 = run_one_fresh(mini)
            vs = [x for x in o2.get("violations", []) if x["clause"] == v["clause"]]
            if vs:
                ok = True
                path = mini
                vfound = vs[0]
                ms = json.load(open(mini))
                ms["_violation"] = vfound
                json.dump(ms, open(mini, "w"), indent=1, sort_keys=True)
        if not ok:
            o2 = run_one_fresh(raw)
            vs = [x for x in o2.get("violations", []) if x["clause"] == v["clause"]]
            if vs:
                ok = True
                path = raw
                vfound = vs[0]
        if not ok:
            det_errors += 1
            errors.append("violation %s did not reproduce in a fresh interpreter (%s)" % (key, raw))
            continue
        final_spec = json.load(open(path))
        f = known.match(findings, vfound, final_spec)
        if f is not None:
            known_lines.append("KNOWN-FINDING: property=%s %s [%s] replay=%s" % (pid, f["description"], v["clause"], path))
        else:
            reported.append((key, path))

    wall = time.time() - t0
    ev = {
        "property_id": pid, "tier": tier, "seed": master, "level": prop.LEVEL,
        "coverage": {
            "evaluations": evals,
            "distinct_nontrivial": len(sigs),
            "rule": prop.RULE,
            "samples": samples,
            "worlds_dispatched": worlds_dispatched,
            "discarded_runs": discarded,
            "harness_errors": herr,
            "fault_kinds_fired": dict(sorted(fired.items())),
            "probes_hit": dict(sorted(probes.items())),
            "counters": dict(sorted(extra.items())),
            "solver_invocations": invocations,
            "simulated_seconds": sim_s,
            "runs_per_hour": int(evals / max(wall_search, 1e-9) * 3600),
            "components": getattr(prop, "COMPONENTS", {}),
            "known_findings_reported": len(known_lines),
            "violation_classes": len(viol),
        },
        "assumptions": getattr(prop, "ASSUMPTIONS", []),
        "wall_s": round(wall, 2),
        "violations": len(reported),
    }
    os.makedirs(os.path.join(OUT, "evidence"), exist_ok=True)
    json.dump(ev, open(os.path.join(OUT, "evidence", pid + ".json"), "w"), indent=1, sort_keys=True)

    if not quiet:
        print("%s %s seed=%d runs=%d distinct_nontrivial=%d worlds=%d invocations=%d faults_fired=%s sim_time=%.3gs discarded=%d harness_errors=%d wall=%.1fs"
              % (pid, tier, master, evals, len(sigs), worlds_dispatched, invocations,
                 json.dumps(dict(sorted(fired.items()))), sim_s, discarded, herr, wall))
        for line in known_lines:
            print(line)
        for key, path in reported:
            print("VIOLATION property=%s replay=%s" % (pid, path))
        for e in errors[:5]:
            print("NOTE " + e.replace("\n", " | ")[:600])
        for m in harness_msgs:
            print("HARNESS " + m.replace("\n", " | ")[-600:])
    if reported:
        return 1
    if det_errors or (total > 0 and (herr + discarded) > max(2, 0.02 * total)) or evals == 0:
        print("HARNESS-ERROR property=%s discarded=%d harness_errors=%d determinism_errors=%d of %d runs" % (pid, discarded, herr, det_errors, total))
        return 2
    return 0


def replay(path):
    spec = json.load(open(path))
    pid = spec["_meta"]["property"]
    o = run_one_fresh(path)
    if "harness_error" in o:
        print("HARNESS " + o["harness_error"][-1500:])
        return 2
    vs = o.get("violations", [])
    print("replay %s: digest=%s violations=%d" % (path, o.get("digest"), len(vs)))
    for v in vs:
        print("  clause=%s fingerprint=%s detail=%s" % (v["clause"], v["fingerprint"], json.dumps(v.get("detail"))[:600]))
    if vs:
        from . import known
        findings = known.load()
        if all(known.match(findings, v, spec) is not None for v in vs):
            for v in vs:
                f = known.match(findings, v, spec)
                print("KNOWN-FINDING: property=%s %s [%s] replay=%s" % (pid, f["description"], v["clause"], path))
            return 0
        print("VIOLATION property=%s replay=%s" % (pid, path))
        return 1
    return 0


def main(argv=None):
    ap = argparse.ArgumentParser()
    ap.add_argument("prop_pos", nargs="?")
    ap.add_argument("--role", default="launch")
    ap.add_argument("--prop")
    ap.add_argument("--tier", default=os.environ.get("VERIF_TIER", "quick"))
    ap.add_argument("--seed", type=int, default=int(os.environ.get("VERIF_SEED", "1")))
    ap.add_argument("--workers", type=int, default=int(os.environ.get("VERIF_WORKERS", "16")))
    ap.add_argument("--worlds", type=int)
    ap.add_argument("--budget", type=float)
    ap.add_argument("--start", type=int, default=0)
    ap.add_argument("--count", type=int, default=1)
    ap.add_argument("--hashseed", type=int, default=0)
    ap.add_argument("--spec")
    ap.add_argument("--out")
    ap.add_argument("--clause")
    ap.add_argument("--replay")
    ap.add_argument("--digests")
    a = ap.parse_args(argv)
    pid = a.prop or a.prop_pos
    if a.role == "batch":
        batch_main(pid, a.seed, a.tier, a.start, a.count, a.hashseed)
        return 0
    if a.role == "one":
        one_main(a.spec)
        return 0
    if a.role == "refserver":
        from . import refserver
        refserver.serve()
        return 0
    if a.role == "shrink":
        shrink_main(a.spec, a.out, a.clause, a.budget or 60)
        return 0
    if a.replay:
        return replay(a.replay)
    if a.tier not in ("quick", "thorough"):
        a.tier = "quick"
    return launch(pid, a.tier, a.seed, a.workers, worlds=a.worlds, budget=a.budget, digests_out=a.digests)
