"""C14 - walk reconstruction uses every edge exactly as often as the solver decided.

The solver is a stub here: a real walk model is constructed, but the reply (per layer: the
edge multiplicities of a fabricated Eulerian s-t multigraph, with float noise) is
fabricated by the simulator."""
import copy
import random

from sim import gen, models
from sim import world as W
from sim.core import H, Violation, digest

ID = "C14"
LEVEL = "exploration"
BATCH = 40
QUICK_WORLDS = 4800
THOROUGH_BUDGET_S = 600
RUN_TIMEOUT = 60
RULE = ("world = (walk model class, digraph with nested/touching cycles and self-loops, k layers) from the seed; the stub solver delivers, "
        "per layer, the edge multiplicities of a fabricated connected balanced s-t multigraph (an s-t path plus closed walks hanging off "
        "it, also off other closed walks; multiplicities > 1; or all zeros) with float noise; get_solution_walks() must return one walk per "
        "layer with exactly that edge multiset.  distinct = digest of (graph, per-layer multiplicity vectors); non-trivial = at least one "
        "layer contains a closed walk (some vertex visited twice).")
COMPONENTS = {"real": ["walk model construction (safe sequences, condensation, encoding)", "SolverWrapper.get_values", "get_solution_walks / Hierholzer reconstruction"],
              "stub": ["the solver: optimize() does not run HiGHS; status kOptimal and the value vector are fabricated"], "not_run": ["HiGHS solve", "gurobi"]}
ASSUMPTIONS = ["a conforming solver returns integer columns within 1e-9 of an integer"]


def gen_world(seed, tier):
    rng = random.Random(H(seed, "c14"))
    g = gen.digraph_rich(rng, max_nodes=rng.choice([4, 5, 6, 7]), max_extra=rng.choice([2, 4, 7]))
    cname = rng.choice(["kPathCoverCycles", "kPathCoverCycles", "kFlowDecompCycles", "kMinPathErrorCycles", "kLeastAbsErrorsCycles"])
    k = rng.randint(1, 3)
    return {"class": cname, "graph": g, "k": k, "seed": rng.randrange(1 << 30),
            "noise": rng.random() < 0.6, "closed": rng.choice([0, 1, 2, 3, 5]), "rep": rng.choice([1, 2, 3]),
            "node_mode": rng.random() < 0.25}


def plans(world, info, seed, tier):
    return [{"world": world}]


def _fabricate(rng, succ, source, sink, nclosed, rep):
    """Edge list of a connected balanced s-t multigraph: an s-t path plus closed walks."""
    # s-t path by random walk with a BFS fallback
    def path_to(a, target, avoid_long=True):
        # BFS shortest path a -> target
        prev = {a: None}
        q = [a]
        while q:
            x = q.pop(0)
            if x == target:
                break
            for y in succ.get(x, []):
                if y not in prev:
                    prev[y] = x
                    q.append(y)
        if target not in prev:
            return None
        p = [target]
        while prev[p[-1]] is not None:
            p.append(prev[p[-1]])
        return p[::-1]
    walk = [source]
    steps = 0
    while walk[-1] != sink and steps < 6:
        nxt = [y for y in succ[walk[-1]]]
        walk.append(rng.choice(nxt))
        steps += 1
    if walk[-1] != sink:
        tail = path_to(walk[-1], sink)
        walk += tail[1:]
    edges = list(zip(walk[:-1], walk[1:]))
    visited = [x for x in walk if x not in (source, sink)]
    closed_count = 0
    for _ in range(nclosed):
        if not visited:
            break
        v = rng.choice(visited)
        # closed walk from v: random steps then the shortest way back; stay off source/sink
        cw = [v]
        for _ in range(rng.randint(1, 4)):
            nxt = [y for y in succ[cw[-1]] if y != sink]
            if not nxt:
                break
            cw.append(rng.choice(nxt))
        backp = path_to(cw[-1], v) if cw[-1] != v else [v]
        if backp is None or sink in backp:
            continue
        cw += backp[1:]
        if len(cw) < 2:
            continue
        times = rng.randint(1, rep)
        for _ in range(times):
            edges += list(zip(cw[:-1], cw[1:]))
        visited += [x for x in cw if x not in visited]
        closed_count += 1
    return edges, closed_count


def execute(spec):
    world = spec["world"]
    rng = random.Random(world["seed"])
    g = world["graph"]
    sim = W.SimWorld(world["seed"], {})
    cname = world["class"]
    k = world["k"]
    vs = []
    stats = {"closed": 0, "zero_layers": 0, "max_mult": 0}
    with W.active(sim):
        G = gen.to_nx(g, "flow")
        cls = models.cls_of(cname)
        node_mode = bool(world.get("node_mode"))
        if node_mode:
            for x in G.nodes():
                G.nodes[x]["flow"] = 1
        try:
            if cname == "kPathCoverCycles":
                model = cls(G, k=k, cover_type="node") if node_mode else cls(G, k=k)
            elif node_mode:
                model = cls(G, flow_attr="flow", flow_attr_origin="node", k=k, weight_type=int)
            else:
                model = cls(G, flow_attr="flow", k=k, weight_type=int)
        except Exception as e:
            return {"violations": [], "digest": digest([type(e).__name__]), "sig": None, "nontrivial": False,
                    "counters": {"construct_exc:" + type(e).__name__: 1}}
        SG = model.G
        succ = {u: list(SG.successors(u)) for u in SG.nodes()}
        layers = []
        for i in range(k):
            if rng.random() < 0.12:
                layers.append([])
                stats["zero_layers"] += 1
            else:
                es, cc = _fabricate(rng, succ, SG.source, SG.sink, world["closed"], world["rep"])
                layers.append(es)
                stats["closed"] += cc
        counts = []
        for es in layers:
            c = {}
            for e in es:
                c[e] = c.get(e, 0) + 1
            counts.append(c)
            if c:
                stats["max_mult"] = max(stats["max_mult"], max(c.values()))

        def stub(sh, j):
            n = sh.numVariables
            vals = [0.0] * n
            nrng = random.Random(world["seed"] + 17)
            for (u, v, i), var in model.edge_vars.items():
                m = counts[i].get((u, v), 0)
                x = float(m)
                if world["noise"]:
                    r = nrng.random()
                    if r < 0.4:
                        x = m + (nrng.random() * 2 - 1) * 4e-10
                    elif r < 0.5 and m == 0:
                        x = -0.0
                vals[var.index] = x
            return vals
        sim.stub = stub
        user_walks = None
        try:
            model.solver.optimize()
            model._is_solved = True
            walks = model.get_solution_walks()
            if node_mode:
                # what the user gets: the walks of the expanded graph condensed back to the original node names
                try:
                    user_walks = model.get_solution(remove_empty_walks=False)["walks"]
                except TypeError:
                    user_walks = model.get_solution()["walks"]
        except Exception as e:
            vs.append(Violation(ID, "C14.exception", cname, {"exc": type(e).__name__, "msg": str(e)[:200]}))
            walks = None
    if walks is not None:
        if len(walks) != k:
            vs.append(Violation(ID, "C14.layer_count", cname, {"k": k, "walks": len(walks)}))
        E = {(e[0], e[1]) for e in g["edges"]}
        if node_mode:
            E = {(u, v) for u, v in SG.edges() if u != SG.source and v != SG.sink}
            # user-visible walks: node x is visited as often as its expanded edge (x.0, x.1) is traversed, and
            # consecutive nodes are edges of the caller's graph
            OE = {(e[0], e[1]) for e in g["edges"]}
            if user_walks is not None and len(user_walks) == len([es for es in layers]):
                for i, (uw, es) in enumerate(zip(user_walks, layers)):
                    visits = {}
                    for (a, b), m in counts[i].items():
                        if isinstance(a, str) and isinstance(b, str) and a.endswith(".0") and b.endswith(".1") and a[:-2] == b[:-2]:
                            visits[a[:-2]] = visits.get(a[:-2], 0) + m
                    got = {}
                    for x in uw:
                        got[x] = got.get(x, 0) + 1
                    if got != visits or any((a, b) not in OE for a, b in zip(uw[:-1], uw[1:])):
                        vs.append(Violation(ID, "C14.condensed_walk_differs", cname, {"layer": i, "user_walk": uw, "expected_visits": visits}))
                        break
        for i, (wk, es) in enumerate(zip(walks, layers)):
            if not es:
                if wk != []:
                    vs.append(Violation(ID, "C14.zero_not_empty", cname, {"layer": i, "walk": wk}))
                continue
            # expected multiset over the caller's edges (drop the synthetic source/sink edges)
            exp = {e: m for e, m in counts[i].items() if e[0] != SG.source and e[1] != SG.sink}
            got = {}
            ok_edges = True
            for a, b in zip(wk[:-1], wk[1:]):
                if (a, b) not in E:
                    ok_edges = False
                got[(a, b)] = got.get((a, b), 0) + 1
            first = [e[1] for e in counts[i] if e[0] == SG.source][0]
            last = [e[0] for e in counts[i] if e[1] == SG.sink][0]
            if not ok_edges or SG.source in wk or SG.sink in wk:
                vs.append(Violation(ID, "C14.not_a_walk", cname, {"layer": i, "walk": wk}))
            elif got != exp:
                missing = {str(e): m - got.get(e, 0) for e, m in exp.items() if got.get(e, 0) != m}
                extra = {str(e): m for e, m in got.items() if e not in exp}
                vs.append(Violation(ID, "C14.multiset_differs", cname, {"layer": i, "dropped_or_changed": missing, "invented": extra, "walk": wk}))
            elif not wk or wk[0] != first or wk[-1] != last:
                vs.append(Violation(ID, "C14.endpoints", cname, {"layer": i, "walk": wk, "first": first, "last": last}))
    seen, uniq = set(), []
    for v in vs:
        if v.key not in seen:
            seen.add(v.key)
            uniq.append(dict(v))
    return {"violations": uniq, "digest": digest([walks, [sorted(map(list, c.items())) for c in counts]]),
            "sig": digest([g["edges"], [sorted(map(list, c.items())) for c in counts]]),
            "nontrivial": stats["closed"] > 0, "fired": {}, "probes": {"closed_walks_spliced": stats["closed"], "zero_layer": stats["zero_layers"],
                                                                      "multiplicity_gt1": 1 if stats["max_mult"] > 1 else 0,
                                                                      "noise": 1 if world["noise"] else 0},
            "sim_s": 0.0, "invocations": 1, "counters": {"class:" + cname: 1, "node_mode": 1 if world.get("node_mode") else 0},
            "summary": {"walks": walks, "layers": [[list(e) for e in es] for es in layers]}}


def sample_view(spec, outcome):
    return {"class": spec["world"]["class"], "edges": spec["world"]["graph"]["edges"], "k": spec["world"]["k"], "summary": outcome.get("summary")}


def shrink(spec):
    w = spec["world"]
    if w["k"] > 1:
        c = copy.deepcopy(spec); c["world"]["k"] -= 1; yield c
    if w["noise"]:
        c = copy.deepcopy(spec); c["world"]["noise"] = False; yield c
    if w["closed"] > 0:
        c = copy.deepcopy(spec); c["world"]["closed"] -= 1; yield c
    if w["rep"] > 1:
        c = copy.deepcopy(spec); c["world"]["rep"] -= 1; yield c
