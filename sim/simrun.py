"""Run one world (construct, getters before solve, solve, getters after) under a SimWorld."""
import traceback

from . import world as W
from . import models


StepCap = W.StepCap


def lib_frame(exc):
    """Innermost flowpaths frame of an exception, as 'file:function'."""
    tb = exc.__traceback__
    last = None
    while tb is not None:
        fn = tb.tb_frame.f_code.co_filename
        if "/flowpaths/" in fn:
            last = fn.split("/flowpaths/", 1)[1] + ":" + tb.tb_frame.f_code.co_name
        tb = tb.tb_next
    return last or "outside-flowpaths"


def run_world(world, simcfg, seed, pre_getters=True, step_cap=None, id_offset=0, hooks=None):
    """Returns (out, simworld, model).  ``out`` is JSON-able."""
    w = W.SimWorld(seed, simcfg, id_offset=id_offset)
    out = {"construct_exc": None, "solve_exc": None, "system_exit": False, "hang": False,
           "solve_ret": None, "pre": None, "post": None}
    model = None
    cname = world["class"]
    if step_cap is not None:
        w.step_cap = step_cap
    with W.active(w):
        try:
            model = models.build(world)
        except W.Discard:
            raise
        except SystemExit:
            out["system_exit"] = True
            out["where"] = "construct"
        except Exception as e:
            out["construct_exc"] = type(e).__name__
            out["construct_frame"] = lib_frame(e)
            out["construct_msg"] = str(e)[:200]
        if model is not None:
            if hooks and "after_construct" in hooks:
                hooks["after_construct"](model, w)
            if pre_getters:
                try:
                    out["pre"] = models.observe(model, cname)
                except SystemExit:
                    out["system_exit"] = True
                    out["where"] = "pre_getters"
            if hooks and hooks.get("solve_first"):
                # the caller solved this object successfully before; the planned faults belong to the *next* solve()
                planned, w.faults = w.faults, {}
                try:
                    model.solve()
                    out["first"] = models.observe(model, cname)
                except W.Discard:
                    raise
                except BaseException as e:
                    out["first"] = {"exc": type(e).__name__}
                out["first_invocations"] = w.inv
                w.faults = {int(k_) + w.inv: dict(v_, at=int(k_) + w.inv) for k_, v_ in planned.items()}
            try:
                out["solve_ret"] = model.solve()
            except W.Discard:
                raise
            except StepCap:
                out["hang"] = True
            except SystemExit:
                out["system_exit"] = True
                out["where"] = "solve"
            except Exception as e:
                out["solve_exc"] = type(e).__name__
                out["solve_frame"] = lib_frame(e)
                out["solve_msg"] = str(e)[:200]
                out["solve_tb"] = traceback.format_exc()[-1200:]
            out["alarm_armed_after"] = w.alarm_deadline is not None
            try:
                out["post"] = models.observe(model, cname)
            except SystemExit:
                out["system_exit"] = True
                out["where"] = "post_getters"
            cut = len(w.invocations)
            fired_before = dict(w.fired)
            if hooks and "retry" in hooks and not out["system_exit"] and not out["hang"]:
                # the caller simply calls solve() again on the same object (all planned faults are behind us)
                w.faults = {}
                try:
                    model.solve()
                    out["retry"] = models.observe(model, cname)
                except W.Discard:
                    raise
                except BaseException as e:
                    out["retry"] = {"exc": type(e).__name__}
    try:
        cut
    except NameError:
        cut, fired_before = len(w.invocations), dict(w.fired)
    out["invocations"] = [
        {k: r.get(k) for k in ("j", "owner", "k", "aux", "real", "delivered", "fired", "alarm", "budget", "chain")}
        for r in w.invocations[:cut]]
    out["fired"] = fired_before
    out["probes"] = dict(w.probes)
    out["sim_s"] = w.sim_seconds
    out["digest"] = w.history.digest()
    return out, w, model
