"""Workload generators: tiny graphs with flows built as superpositions of routes.

Everything is JSON-able and independent of hash order: node lists and edge lists are
ordered lists, never sets.  Node names come from a pool that includes awkward ones.
"""
import random

NAME_POOL = ["a", "b", "c", "d", "e", "f", "g", "h", "s", "t", "u", "v", "x", "y",
             "a.0", "a.1", "b.0", "0", "1", "2", "10", "source", "sink", "n_1", "A", "ab"]


def names(rng, n):
    pool = list(NAME_POOL)
    rng.shuffle(pool)
    return pool[:n]


def _flow_from_routes(routes, weights):
    f = {}
    for r, w in zip(routes, weights):
        for a, b in zip(r[:-1], r[1:]):
            f[(a, b)] = f.get((a, b), 0) + w
    return f


def _edges_json(flow, order):
    return [[u, v, flow[(u, v)]] for (u, v) in order if (u, v) in flow]


def dag_layered(rng, max_nodes=7, max_edges=10, max_routes=4, wmax=9, float_w=False, zero_edge_p=0.12):
    """Random DAG; flow = superposition of <= max_routes source-to-sink paths."""
    n = rng.randint(3, max_nodes)
    ns = names(rng, n)
    order = []
    for i in range(n):
        for j in range(i + 1, n):
            if rng.random() < 0.45:
                order.append((ns[i], ns[j]))
    rng.shuffle(order)
    order = order[:max_edges]
    if not order:
        order = [(ns[0], ns[1])]
    succ = {}
    pred = {}
    for u, v in order:
        succ.setdefault(u, []).append(v)
        pred.setdefault(v, []).append(u)
    sources = [x for x in ns if x in succ and x not in pred]
    routes = []
    nroutes = rng.randint(1, max_routes)
    for _ in range(nroutes):
        p = [rng.choice(sources)]
        while p[-1] in succ:
            p.append(rng.choice(succ[p[-1]]))
        routes.append(p)
    # make sure every edge is used by some route (so the flow is positive everywhere),
    # by adding a route through each uncovered edge (bounded)
    covered = set()
    for r in routes:
        covered.update(zip(r[:-1], r[1:]))
    for (u, v) in order:
        if (u, v) not in covered and len(routes) < max_routes + 3:
            p = [u]
            while p[0] in pred:
                p.insert(0, rng.choice(pred[p[0]]))
            q = [v]
            while q[-1] in succ:
                q.append(rng.choice(succ[q[-1]]))
            r = p + q
            routes.append(r)
            covered.update(zip(r[:-1], r[1:]))
    weights = [_w(rng, wmax, float_w) for _ in routes]
    flow = _flow_from_routes(routes, weights)
    order = [e for e in order if e in flow]
    used = [x for x in ns if any(x in e for e in order)]
    if zero_edge_p and rng.random() < zero_edge_p and len(used) >= 3:
        # an edge no route uses (flow 0), forward in the topological order, between two inner nodes
        cands = [(used[i], used[j]) for i in range(len(used)) for j in range(i + 1, len(used))
                 if (used[i], used[j]) not in flow and used[i] in succ and used[j] in pred]   # no source/sink changes its role
        if cands:
            e = rng.choice(cands)
            order.append(e)
            flow[e] = 0
    return {"kind": "dag", "nodes": used,
            "edges": _edges_json(flow, order), "routes": routes, "weights": weights}


def dag_braid(rng, max_routes=3, wmax=9, float_w=False):
    """Layered DAG with 3-4 layers of 1-2 nodes and (almost) complete bipartite connections between
    consecutive layers: routes are long (one edge per layer) and cross each other at shared nodes."""
    m = rng.randint(3, 4)
    pool = names(rng, 10)
    layers = []
    for i in range(m + 1):
        k = 1 if (i in (0, m) and rng.random() < 0.5) else rng.randint(1, 2)
        layers.append([pool.pop() for _ in range(k)])
    if all(len(l) == 1 for l in layers):
        layers[m // 2].append(pool.pop())
        layers[m // 2 + 1 if m // 2 + 1 <= m else m // 2 - 1].append(pool.pop())
    order = []
    for a, b in zip(layers[:-1], layers[1:]):
        for u in a:
            for v in b:
                if rng.random() < 0.85:
                    order.append((u, v))
        for v in b:                      # every node has an in-edge
            if not any(e[1] == v for e in order):
                order.append((rng.choice(a), v))
        for u in a:                      # and an out-edge
            if not any(e[0] == u for e in order):
                order.append((u, rng.choice(b)))
    succ = {}
    for u, v in order:
        succ.setdefault(u, []).append(v)
    routes = []
    covered = set()
    tries = 0
    while (len(routes) < rng.randint(2, max_routes) or len(covered) < len(order)) and tries < 40 and len(routes) < max_routes + 3:
        tries += 1
        p = [rng.choice(layers[0])]
        while p[-1] in succ:
            nxt = succ[p[-1]]
            unc = [y for y in nxt if (p[-1], y) not in covered]
            p.append(rng.choice(unc) if unc else rng.choice(nxt))
        es = set(zip(p[:-1], p[1:]))
        if es <= covered and len(routes) >= 2:
            continue
        routes.append(p)
        covered |= es
    weights = [_w(rng, wmax, float_w) for _ in routes]
    flow = _flow_from_routes(routes, weights)
    order = [e for e in order if e in flow]
    rng.shuffle(order)
    nodes = []
    for u, v in order:
        for x in (u, v):
            if x not in nodes:
                nodes.append(x)
    return {"kind": "dag", "nodes": nodes, "edges": _edges_json(flow, order), "routes": routes, "weights": weights}


def _w(rng, wmax, float_w):
    if float_w:
        return round(rng.uniform(0.5, wmax), rng.choice([1, 2, 3]))
    return rng.randint(1, wmax)


def dag_bowtie(rng, wmax=9, float_w=False):
    """Chain of hubs joined by bundles of parallel 2-edge routes whose flow partitions
    disagree: width = max bundle size, but the minimum decomposition is usually larger."""
    L = 1 if rng.random() < 0.75 else 2
    total = rng.randint(4, 2 * wmax)
    pool = names(rng, 12)
    hubs = [pool.pop() for _ in range(L + 1)]
    order = []
    flow = {}
    for i in range(L + 1):
        # bundle entering hub i (i==0: from distinct sources) and leaving the last hub
        pass
    bundles = []
    for i in range(L + 2):
        r = rng.randint(1, 3)
        r = min(r, total)
        cuts = sorted(rng.sample(range(1, total), r - 1)) if r > 1 else []
        parts = [b - a for a, b in zip([0] + cuts, cuts + [total])]
        bundles.append(parts)
    # bundle 0: sources -> hub0 ; bundle i: hub(i-1) -> hub(i) via mid nodes ; last: hubL -> sinks
    for i, parts in enumerate(bundles):
        for p in parts:
            if i == 0:
                if not pool:
                    continue
                s = pool.pop()
                e = (s, hubs[0])
                order.append(e); flow[e] = p
            elif i == L + 1:
                if not pool:
                    continue
                t = pool.pop()
                e = (hubs[L], t)
                order.append(e); flow[e] = p
            else:
                a, b = hubs[i - 1], hubs[i]
                if (a, b) not in flow and rng.random() < 0.3:
                    e = (a, b)
                    order.append(e); flow[e] = p
                elif pool:
                    m = pool.pop()
                    order.append((a, m)); flow[(a, m)] = p
                    order.append((m, b)); flow[(m, b)] = p
                else:
                    e = (a, b)
                    if e in flow:
                        flow[e] += p
                    else:
                        order.append(e); flow[e] = p
    # conservation can break if the pool ran dry; repair by recomputing totals per hub
    nodes = []
    for u, v in order:
        for x in (u, v):
            if x not in nodes:
                nodes.append(x)
    g = {"kind": "dag", "nodes": nodes, "edges": _edges_json(flow, order), "routes": None, "weights": None}
    # candidate "mismatched pair" constraints: an edge into a hub and an edge out of it with different flow
    # values - no decomposition with few paths sends one path through both completely
    pairs = []
    for h in hubs:
        ins = [e for e in order if e[1] == h]
        outs = [e for e in order if e[0] == h]
        for a in ins:
            for b in outs:
                if flow[a] != flow[b]:
                    pairs.append([list(a), list(b)])
    g["hub_pairs"] = pairs
    if not _conserving(g) or len(g["edges"]) > 10:
        return dag_layered(rng, wmax=wmax, float_w=float_w)
    if float_w:
        sc = rng.choice([0.5, 0.25, 1.5])
        for e in g["edges"]:
            e[2] = e[2] * sc
    return g


def _conserving(g):
    inn = {}
    out = {}
    for u, v, f in g["edges"]:
        out[u] = out.get(u, 0) + f
        inn[v] = inn.get(v, 0) + f
    for x in g["nodes"]:
        if x in inn and x in out and abs(inn[x] - out[x]) > 1e-9:
            return False
    return True


def digraph_flower(rng, max_routes=3, wmax=5, max_rep=2, float_w=False, zero_petal_p=0.2, max_petals=2, max_edges=7):
    """Backbone with a vertex carrying several edge-disjoint cycles ("petals": self-loop,
    2-cycle, 3-cycle, a petal hanging off another petal); optionally a petal no route uses
    (zero flow).  Flow = superposition of walks that traverse the petals."""
    pool = names(rng, 10)
    s, v, t = pool.pop(), pool.pop(), pool.pop()
    order = [(s, v), (v, t)]
    back = [s, v, t]
    if rng.random() < 0.3:
        m = pool.pop()
        order = [(s, v), (v, m), (m, t)]
        back = [s, v, m, t]
    petals = []
    for _ in range(rng.randint(2, max_petals)):
        kind = rng.choice(["loop", "two", "two", "three", "nested"])
        if len(order) + {"loop": 1, "two": 2, "three": 3, "nested": 4}[kind] > max_edges:
            kind = "loop" if len(order) + 1 <= max_edges else None
        if kind is None:
            break
        if kind == "loop" and (v, v) not in order:
            order.append((v, v)); petals.append([v, v])
        elif kind == "two" and pool:
            x = pool.pop()
            order += [(v, x), (x, v)]; petals.append([v, x, v])
        elif kind == "three" and len(pool) >= 2:
            x, y = pool.pop(), pool.pop()
            order += [(v, x), (x, y), (y, v)]; petals.append([v, x, y, v])
        elif kind == "nested" and len(pool) >= 2:
            x, y = pool.pop(), pool.pop()
            order += [(v, x), (x, v), (x, y), (y, x)]; petals.append([v, x, y, x, v])
    zero = None
    if petals and len(petals) > 1 and rng.random() < zero_petal_p:
        zero = petals.pop()
    routes = []
    for _ in range(rng.randint(1, min(2, max_routes))):
        r = [s, v]
        for pt in petals:
            for _ in range(rng.randint(0, max_rep)):
                r += pt[1:]
        r += back[2:]
        routes.append(r)
    # every (non-zero) petal is used by some route
    used = set()
    for r in routes:
        used.update(zip(r[:-1], r[1:]))
    for pt in petals:
        if not set(zip(pt[:-1], pt[1:])) <= used:
            r = [s, v] + pt[1:] + back[2:]
            routes.append(r)
            used.update(zip(r[:-1], r[1:]))
    weights = [_w(rng, wmax, float_w) for _ in routes]
    flow = _flow_from_routes(routes, weights)
    for e in order:
        flow.setdefault(e, 0)
    rng.shuffle(order)        # adjacency (successor) order must not be backbone-first
    nodes = []
    for a, b in order:
        for x in (a, b):
            if x not in nodes:
                nodes.append(x)
    return {"kind": "digraph", "nodes": nodes, "edges": _edges_json(flow, order), "routes": routes, "weights": weights,
            "zero_flow_edges": [list(e) for e in order if flow[e] == 0]}


def digraph_laps(rng, float_w=False):
    """One hub with 1-2 petals; entry and exit edges are meant to be *ignored* by the caller (returned under
    "entry_exit"), so every element that has to be explained lies on a cycle and is traversed laps >= 2 times by
    each generating walk.  Then nothing of multiplicity 1 ties a walk's weight to a flow value: weight and
    multiplicity are only tied through their product."""
    pool = names(rng, 8)
    s, h, t = pool.pop(), pool.pop(), pool.pop()
    order = [(s, h), (h, t)]
    petals = []
    for _ in range(rng.choice([1, 1, 2])):
        kind = rng.choice(["loop", "two", "two", "three"])
        if kind == "loop" and (h, h) not in order:
            order.append((h, h)); petals.append([h, h])
        elif kind == "two":
            x = pool.pop()
            order += [(h, x), (x, h)]; petals.append([h, x, h])
        elif kind == "three":
            x, y = pool.pop(), pool.pop()
            order += [(h, x), (x, y), (y, h)]; petals.append([h, x, y, h])
    if not petals:
        order.append((h, h)); petals.append([h, h])
    exit_at = None
    if len(petals) == 1 and len(petals[0]) > 2 and rng.random() < 0.4:
        exit_at = petals[0][1]
        order[1] = (exit_at, t)
    routes, weights = [], []
    for _ in range(rng.choice([1, 1, 2])):
        laps = rng.choice([2, 2, 3, 4])
        r = [s, h]
        for pt in petals:
            for _ in range(laps):
                r += pt[1:]
        if exit_at is not None:
            r.append(exit_at)       # leave from inside the petal: its first edge is taken once more than the others
        r.append(t)
        routes.append(r)
        weights.append(_w(rng, 3, float_w))
    flow = _flow_from_routes(routes, weights)
    # the ignored entry / exit edges may carry anything, also values far above everything that is to be explained
    if rng.random() < 0.5:
        flow[(s, h)] = rng.choice([rng.randint(0, 9), 50, 100])
    if rng.random() < 0.5:
        flow[(exit_at or h, t)] = rng.choice([rng.randint(0, 9), 50, 100])
    rng.shuffle(order)
    nodes = []
    for a, b in order:
        for x in (a, b):
            if x not in nodes:
                nodes.append(x)
    return {"kind": "digraph", "nodes": nodes, "edges": _edges_json(flow, order), "routes": routes, "weights": weights,
            "zero_flow_edges": [], "entry_exit": [[s, h], [exit_at or h, t]], "back_edges": [list(pt[-2:]) for pt in petals]}


def digraph_cyclic(rng, max_nodes=5, max_edges=6, max_routes=3, wmax=5, max_rep=2, float_w=False, flower_p=0.3, zero_petal_p=0.2):
    """Digraph with cycles; flow = superposition of source-to-sink walks that wind cycles."""
    if rng.random() < flower_p:
        return digraph_flower(rng, max_routes=max_routes, wmax=wmax, max_rep=max_rep, float_w=float_w, max_edges=max_edges + 1, zero_petal_p=zero_petal_p)
    n = rng.randint(3, max(3, max_nodes))
    ns = names(rng, n)
    # backbone path(s)
    order = []
    L = rng.randint(3, n)
    back = ns[:L]
    for a, b in zip(back[:-1], back[1:]):
        order.append((a, b))
    extra = ns[L:]
    # attach extra nodes as alternative sources / sinks / detours
    for x in extra:
        mode = rng.choice(["src", "snk", "detour"])
        if mode == "src":
            order.append((x, rng.choice(back[1:] if len(back) > 1 else back)))
        elif mode == "snk":
            order.append((rng.choice(back[:-1] if len(back) > 1 else back), x))
        else:
            i = rng.randrange(len(back))
            order.append((back[i], x))
            order.append((x, back[rng.randrange(0, i + 1)]))
    # back edges / self loops on inner backbone nodes (keep first node a source, last a sink)
    inner = back[1:-1]
    nb = rng.randint(1, 3)
    for _ in range(nb):
        if not inner:
            break
        j = rng.randrange(len(inner))
        i = rng.randrange(0, j + 1)
        e = (inner[j], inner[i])
        if e not in order:
            order.append(e)
    order = order[:max(max_edges, len(back) - 1)]
    succ = {}
    pred = {}
    for u, v in order:
        succ.setdefault(u, []).append(v)
        pred.setdefault(v, []).append(u)
    nodes = []
    for u, v in order:
        for x in (u, v):
            if x not in nodes:
                nodes.append(x)
    sources = [x for x in nodes if x not in pred]
    sinks = [x for x in nodes if x not in succ]
    if not sources or not sinks:
        return digraph_cyclic(rng, max_nodes, max_edges, max_routes, wmax, max_rep, float_w)
    count = {e: 0 for e in order}

    def walk():
        p = [rng.choice(sources)]
        used = {}
        steps = 0
        while p[-1] in succ and steps < 40:
            cands = [v for v in succ[p[-1]] if used.get((p[-1], v), 0) < max_rep]
            if not cands:
                return None
            # prefer uncovered edges
            unc = [v for v in cands if count[(p[-1], v)] == 0 and used.get((p[-1], v), 0) == 0]
            v = rng.choice(unc) if unc and rng.random() < 0.8 else rng.choice(cands)
            used[(p[-1], v)] = used.get((p[-1], v), 0) + 1
            p.append(v)
            steps += 1
        if p[-1] in succ:
            return None
        return p

    routes = []
    tries = 0
    want = rng.randint(1, max_routes)
    while tries < 60 and (len(routes) < want or any(c == 0 for c in count.values())) and len(routes) < max_routes + 3:
        tries += 1
        p = walk()
        if p is None:
            continue
        new = any(count[e] == 0 for e in zip(p[:-1], p[1:]))
        if len(routes) >= want and not new:
            continue
        routes.append(p)
        for e in zip(p[:-1], p[1:]):
            count[e] += 1
    if not routes:
        return digraph_cyclic(rng, max_nodes, max_edges, max_routes, wmax, max_rep, float_w)
    weights = [_w(rng, wmax, float_w) for _ in routes]
    flow = _flow_from_routes(routes, weights)
    order = [e for e in order if e in flow]
    rng.shuffle(order)
    nodes = []
    for u, v in order:
        for x in (u, v):
            if x not in nodes:
                nodes.append(x)
    return {"kind": "digraph", "nodes": nodes, "edges": _edges_json(flow, order),
            "routes": routes, "weights": weights}


def is_acyclic(g):
    succ = {}
    indeg = {x: 0 for x in g["nodes"]}
    for u, v, _ in g["edges"]:
        succ.setdefault(u, []).append(v)
        indeg[v] = indeg.get(v, 0) + 1
        indeg.setdefault(u, 0)
    q = [x for x, d in indeg.items() if d == 0]
    seen = 0
    while q:
        x = q.pop()
        seen += 1
        for y in succ.get(x, []):
            indeg[y] -= 1
            if indeg[y] == 0:
                q.append(y)
    return seen == len(indeg)


def perturb(rng, g, max_delta=2, p=0.5):
    """Copy of g with some weights perturbed (for the error models)."""
    out = dict(g)
    out["edges"] = []
    for u, v, f in g["edges"]:
        if rng.random() < p:
            f = max(0, f + rng.randint(-max_delta, max_delta))
        out["edges"].append([u, v, f])
    if all(f == 0 for _, _, f in out["edges"]):
        out["edges"][0][2] = 1
    return out


def to_nx(g, attr="flow"):
    import networkx as nx
    G = nx.DiGraph()
    for x in g["nodes"]:
        G.add_node(x)
    for u, v, f in g["edges"]:
        if f is None:
            G.add_edge(u, v)
        else:
            G.add_edge(u, v, **{attr: f})
    if "node_weights" in g:
        for x, f in g["node_weights"]:
            if f is not None:
                G.nodes[x][attr] = f
    if "id" in g:
        G.graph["id"] = g["id"]
    return G


def node_weighted(rng, g):
    """Node-weighted variant: node value = flow through the node (sum of route weights)."""
    routes, weights = g.get("routes"), g.get("weights")
    if not routes:
        return None
    val = {x: 0 for x in g["nodes"]}
    for r, w in zip(routes, weights):
        for x in r:
            val[x] += w
    out = {"kind": g["kind"], "nodes": list(g["nodes"]),
           "edges": [[u, v, None] for u, v, _ in g["edges"]],
           "node_weights": [[x, val[x]] for x in g["nodes"]],
           "routes": routes, "weights": weights}
    return out


def subpath_constraints(rng, g, max_c=2, contiguous_only=False):
    """Constraints taken from the generating routes (so they are satisfiable by the
    construction); DAG: sub-sequences of one route's edges; cyclic: subsets."""
    routes = g.get("routes")
    if not routes:
        return []
    out = []
    for _ in range(rng.randint(1, max_c)):
        r = rng.choice(routes)
        es = list(zip(r[:-1], r[1:]))
        if not es:
            continue
        i = rng.randrange(len(es))
        j = rng.randrange(i, len(es))
        if len(es) >= 2 and rng.random() < 0.7:
            # prefer constraints of at least two edges
            i = rng.randrange(len(es) - 1)
            j = rng.randrange(i + 1, len(es))
        seg = es[i:j + 1]
        if not contiguous_only and len(seg) > 2 and rng.random() < 0.4:
            # drop an inner edge: a gapped sequence
            del seg[rng.randrange(1, len(seg) - 1)]
        # de-duplicate edges (walks may repeat), keep order
        seen = []
        for e in seg:
            if e not in seen:
                seen.append(e)
        out.append([list(e) for e in seen])
    if out and g.get("zero_flow_edges") and rng.random() < 0.7:
        # a subset constraint may also name an edge no generating route uses
        z = rng.choice(g["zero_flow_edges"])
        if list(z) not in out[0]:
            out[0] = out[0] + [list(z)]
            g["_constraint_has_unused_edge"] = True
    if out and rng.random() < 0.2:
        out.append([list(e) for e in out[0]])   # duplicated constraint
    return out


def dag_with_selfloops(rng, max_nodes=5, max_edges=6, max_routes=2, wmax=3, float_w=False):
    """A layered DAG whose only cycles are self-loops: some routes go round a loop at an inner node 1-3 times."""
    g = dag_layered(rng, max_nodes=max_nodes, max_edges=max_edges, max_routes=max_routes, wmax=wmax, float_w=float_w, zero_edge_p=0.0)
    routes = [list(r) for r in g["routes"]][:3]
    weights = list(g["weights"])[:3]
    ends = {r[0] for r in g["routes"]} | {r[-1] for r in g["routes"]}
    inner = [x for x in g["nodes"] if any(x in r[1:-1] for r in routes) and x not in ends]
    if not inner:
        # a loop at a source or sink would take away its role: no such graph here
        return digraph_cyclic(rng, max_nodes=max_nodes, max_edges=max_edges, max_routes=max_routes, wmax=wmax, float_w=float_w, flower_p=0.0)
    for x in rng.sample(inner, min(len(inner), rng.randint(1, 2))):
        for i, r in enumerate(routes):
            if x in r and rng.random() < 0.7:
                j = r.index(x)
                routes[i] = r[:j] + [x] * rng.randint(1, 3) + r[j:]
    flow = _flow_from_routes(routes, weights)
    order = [(u, v) for u, v, _ in g["edges"] if (u, v) in flow] + [e for e in flow if e[0] == e[1]]
    rng.shuffle(order)
    nodes = []
    for u, v in order:
        for y in (u, v):
            if y not in nodes:
                nodes.append(y)
    return {"kind": "digraph", "nodes": nodes, "edges": _edges_json(flow, order), "routes": routes, "weights": weights}


def digraph_parallel(rng, max_parallel=3):
    """Two strongly connected parts (each a single node, a self-loop, a 2-cycle or a 3-cycle) joined by 2..max_parallel
    parallel edges between *different* node pairs, an entry into the first part, an exit from the second one and,
    sometimes, a by-pass branch.  Unit weights unless drawn otherwise."""
    ns = names(rng, 10)
    it = iter(ns)

    def part():
        kind = rng.choice(["node", "loop", "two", "three", "three"])
        if kind == "node":
            a = next(it)
            return [a], []
        if kind == "loop":
            a = next(it)
            return [a], [(a, a)]
        if kind == "two":
            a, b = next(it), next(it)
            return [a, b], [(a, b), (b, a)]
        a, b, c = next(it), next(it), next(it)
        return [a, b, c], [(a, b), (b, c), (c, a)]
    A, EA = part()
    B, EB = part()
    s_, t_ = next(it), next(it)
    order = [(s_, rng.choice(A))] + EA
    pairs = [(x, y) for x in A for y in B]
    rng.shuffle(pairs)
    order += pairs[:max(1, min(len(pairs), rng.randint(2, max_parallel)))]
    order += EB + [(rng.choice(B), t_)]
    if rng.random() < 0.5:
        order.append((s_, t_)) if rng.random() < 0.3 else order.extend([(s_, ns[-1]), (ns[-1], t_)])
    rng.shuffle(order)
    nodes = []
    for u, v in order:
        for x in (u, v):
            if x not in nodes:
                nodes.append(x)
    return {"kind": "digraph", "nodes": nodes, "edges": [[u, v, rng.choice([1, 1, 2, 5])] for u, v in order], "routes": None, "weights": None}


def digraph_rich(rng, max_nodes=6, max_extra=6):
    """Digraph with many cycles (nested, touching, self-loops, parallel exits); unit weights.
    The first backbone node is a source and the last one a sink."""
    n = rng.randint(3, max_nodes)
    ns = names(rng, n)
    L = rng.randint(3, n)
    back = ns[:L]
    order = [(a, b) for a, b in zip(back[:-1], back[1:])]
    inner = back[1:-1] + ns[L:]
    for x in ns[L:]:
        # hang the extra node on a cycle through an inner node
        a = rng.choice(back[1:-1])
        order.append((a, x))
        order.append((x, rng.choice(back[1:-1])))
    for _ in range(rng.randint(1, max_extra)):
        a = rng.choice(inner)
        b = rng.choice(inner)
        if (a, b) not in order:
            order.append((a, b))
    if rng.random() < 0.3 and len(back) > 3:
        e = (back[0], back[2])
        if e not in order:
            order.append(e)
    if rng.random() < 0.3 and len(back) > 3:
        e = (back[-3], back[-1])
        if e not in order:
            order.append(e)
    nodes = []
    for u, v in order:
        for x in (u, v):
            if x not in nodes:
                nodes.append(x)
    return {"kind": "digraph", "nodes": nodes, "edges": [[u, v, 1] for u, v in order], "routes": None, "weights": None}
