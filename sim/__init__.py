"""Deterministic simulation harness for algbio/flowpaths (see /verif/DESIGN.md)."""
