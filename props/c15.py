"""C15 - MinGenSet / MinSetCover return true optima (what crosses the solver channel:
status faults at every k of the search, alternative optima, integrality noise)."""
import copy
import random

from sim import models, ref, simrun
from sim import world as W
from sim.core import H, Violation, digest

ID = "C15"
LEVEL = "exploration"
BATCH = 16
QUICK_WORLDS = 480
THOROUGH_BUDGET_S = 600
RUN_TIMEOUT = 120
RULE = ("world = MinGenSet instance (<= 5 numbers <= 14 built as sub-multiset sums of a hidden base, total, max_multiplicity 1-3, lower "
        "bound, optional partition constraints, complement removal on/off) or MinSetCover instance (universe <= 6, <= 6 subsets, weights "
        "given or omitted) from the seed; solved through the simulated channel under canonical / alt / alt+noise replies and with a status "
        "fault at a seeded k of the search; the result is compared with a brute-force optimum (the minimum itself is a pure function of the "
        "input: that part is input-sampled).  distinct = (instance, reply, faults); non-trivial = solved and the delivered reply differed "
        "from the canonical one (alt vertex / noise) or a fault fired.")
COMPONENTS = {"real": ["MinGenSet, MinSetCover, SolverWrapper", "HiGHS"], "stub": ["status faults, float noise, virtual clock"], "not_run": ["gurobi"]}
ASSUMPTIONS = ["brute force over non-decreasing integer k-tuples summing to total is the reference optimum (int weights)"]


def gen_world(seed, tier):
    rng = random.Random(H(seed, "c15"))
    if rng.random() < 0.7:
        mult = rng.choice([1, 1, 1, 2, 3])
        base = [rng.randint(1, 6) for _ in range(rng.randint(2, 4))]
        r3 = random.Random(H(seed, "c15small"))
        if mult > 1 and r3.random() < 0.3:
            # a small total next to a larger multiplicity: numbers above the total (an edge on a cycle carries a multiple
            # of the walk's weight)
            base = [r3.choice([1, 1, 2])] + ([1] if r3.random() < 0.3 else [])
        total = sum(base)
        nums = []
        for _ in range(rng.randint(2, 5)):
            s = sum(b * rng.randint(0, mult) for b in base)
            if 0 < s <= total * mult and s not in nums:
                nums.append(s)
        if rng.random() < 0.3:
            nums = [x for x in nums if x <= total]
        if not nums:
            nums = [base[0]]
        if r3.random() < 0.12:
            nums.insert(r3.randrange(len(nums) + 1), 0)          # 0 is a number too (the empty sum)
        if r3.random() < 0.08:
            nums.append(total)
        r4 = random.Random(H(seed, "c15repeat"))
        if r4.random() < 0.15:
            # a list is not a set: the same number may be listed many times (it is still one number to generate)
            x_ = r4.choice(nums)
            for _ in range(r4.randint(2, 8)):
                nums.insert(r4.randrange(len(nums) + 1), x_)
        args = {"numbers": nums, "total": total, "weight_type": rng.choice(["int", "int", "float"]),
                "max_multiplicity": mult, "lowerbound": rng.choice([1, 1, 1, 2]), "solver_options": {}}
        if rng.random() < 0.3:
            args["remove_complement_values"] = False
        if mult == 1 and rng.random() < 0.3:
            # partitions of total that the hidden base can realise
            pcs = []
            for _ in range(rng.choice([1, 1, 2, 3])):
                groups = [[] for _ in range(rng.randint(2, 3))]
                for b in base:
                    rng.choice(groups).append(b)
                pc = [sum(gp) for gp in groups if gp]
                if (len(pc) >= 2 or r3.random() < 0.5) and pc not in pcs:
                    pcs.append(pc)          # also the trivial partition [total]
            if pcs:
                args["partition_constraints"] = pcs
                if rng.random() < 0.5:
                    args["numbers"] = args["numbers"][:1]     # few numbers: the constraints decide the size
        return {"class": "MinGenSet", "graph": None, "args": args}
    nu = rng.randint(2, 6)
    universe = list(range(nu))
    empty_universe = random.Random(H(seed, "c15empty")).random() < 0.06
    subsets = []
    for _ in range(rng.randint(2, 6)):
        s = [u for u in universe if rng.random() < 0.45]
        if s:
            subsets.append(s)
    # make sure a cover exists
    missing = [u for u in universe if not any(u in s for s in subsets)]
    r2 = random.Random(H(seed, "c15cover"))
    if missing and r2.random() < 0.92:
        subsets.append(missing)         # otherwise no cover exists: solve() must then not claim one
    if r2.random() < 0.2:
        subsets.insert(r2.randrange(len(subsets) + 1), [])             # an empty subset, anywhere in the list
    if r2.random() < 0.15 and subsets:
        subsets.insert(r2.randrange(len(subsets) + 1), list(r2.choice(subsets)))     # the same subset twice
    if empty_universe:
        universe = []                    # nothing to cover: the empty cover is the optimum
        subsets = [list(s_) for s_ in subsets[:2]]
    if not subsets:
        subsets = [[0]]        # a model without any subset has no variable at all (HiGHS: kModelEmpty): not an instance
    args = {"universe": universe, "subsets": subsets, "solver_options": {}}
    if rng.random() < 0.7:
        args["subset_weights"] = [rng.choice([1, 1, 2, 3, 0.5, 2.5]) for _ in subsets]
        if r2.random() < 0.15:
            args["subset_weights"][r2.randrange(len(subsets))] = 0
    return {"class": "MinSetCover", "graph": None, "args": args}


def plans(world, info, seed, tier):
    rng = random.Random(H(seed, "c15plans"))
    specs = []
    for pol in (["canonical", "alt", "alt+noise", "noise"] if tier == "quick" else ["canonical", "alt", "alt", "alt+noise", "alt+noise", "noise", "noise"]):
        specs.append({"world": world, "sim": {"latency": "instant", "reply": pol, "reply_seed": rng.randrange(1 << 30), "faults": []}})
    if world["class"] == "MinSetCover":
        for kind in (["time_limit_no_incumbent", "time_limit_with_incumbent"] if tier == "quick" else ["time_limit_no_incumbent", "time_limit_with_incumbent", "interrupt", "unknown", "solution_limit"]):
            f = {"at": 0, "kind": kind}
            if kind == "time_limit_with_incumbent":
                f["incumbent"] = "feasible"
            specs.append({"world": world, "sim": {"latency": "instant", "reply": "canonical", "reply_seed": rng.randrange(1 << 30), "faults": [f]}})
    # another instance with the same data but other side conditions is built and solved first, in the same process
    import copy as _copy
    sib = _copy.deepcopy(world)
    a_ = sib["args"]
    if world["class"] == "MinGenSet":
        if "partition_constraints" in a_:
            a_.pop("partition_constraints")
        else:
            a_["remove_complement_values"] = not a_.get("remove_complement_values", True)
        a_["lowerbound"] = 1
    else:
        if a_.get("subset_weights"):
            a_["subset_weights"] = [1 for _ in a_["subset_weights"]]
        else:
            a_["subset_weights"] = [rng.choice([1, 2, 5]) for _ in a_["subsets"]]
    specs.append({"world": world, "sibling_first": sib, "sim": {"latency": "instant", "reply": "canonical", "reply_seed": rng.randrange(1 << 30), "faults": []}})
    if world["class"] == "MinGenSet":
        for j in range(2 if tier == "quick" else 4):
            specs.append({"world": world, "sim": {"latency": "instant", "reply": rng.choice(["canonical", "alt+noise"]), "reply_seed": rng.randrange(1 << 30),
                                                  "faults": [{"at": j, "kind": rng.choice(["interrupt", "time_limit_with_incumbent", "time_limit_no_incumbent", "unknown", "solution_limit"])}]}})
    return specs


def execute(spec):
    world = spec["world"]
    args = world["args"]
    cname = world["class"]
    sim = W.SimWorld(H(spec["sim"]["reply_seed"], "c15"), spec["sim"])
    vs = []

    def V(clause, detail):
        vs.append(Violation(ID, "C15." + clause, cname, detail))
    out = {"solved": False, "exc": None}
    try:
        with W.active(sim):
            try:
                if spec.get("sibling_first"):
                    try:
                        sibm = models.build(spec["sibling_first"])
                        sibm.solve()
                    except W.Discard:
                        raise
                    except Exception:
                        pass
                    sim.faults = {}
                model = models.build(world)
                model.solve()
                try:
                    out["solved"] = bool(model.is_solved())
                except Exception:
                    out["solved"] = False
                if out["solved"]:
                    out["solution"] = model.get_solution()
            except W.Discard:
                raise
            except Exception as e:
                out["exc"] = type(e).__name__
                out["frame"] = simrun.lib_frame(e)
                out["msg"] = str(e)[:160]
    except W.Discard as e:
        return {"discard": str(e)}
    fired = sum(sim.fired.values())
    counters = {"class:" + cname: 1}
    if cname == "MinGenSet":
        nums, total, mult = args["numbers"], args["total"], args.get("max_multiplicity", 1)
        lb = args.get("lowerbound", 1)
        pcs = args.get("partition_constraints")
        exists = all(0 <= x <= total * mult for x in nums)
        kmin, wit = ref.min_gen_set_size([x for x in nums], total, mult, kmax=6, partition_constraints=pcs)
        counters["bruteforce:" + ("found" if kmin else "none")] = 1
        if out["exc"]:
            V("exception", {"exc": out["exc"], "frame": out.get("frame"), "msg": out.get("msg")})
        elif out["solved"]:
            sol = out["solution"]
            if not isinstance(sol, list) or any((not isinstance(x, (int, float))) or x < -1e-9 for x in sol):
                V("malformed", {"solution": repr(sol)[:200]})
            else:
                if args["weight_type"] == "int" and any(not isinstance(x, int) for x in sol):
                    V("weight_type", {"solution": repr(sol)})
                if not ref.generates(sol, nums, total, mult):
                    V("not_generating", {"solution": sol, "numbers": nums, "total": total, "max_multiplicity": mult})
                elif pcs and args["weight_type"] == "int" and not all(ref._partition_ok(sol, c) for c in pcs):
                    V("partition_constraint_violated", {"solution": sol, "constraints": pcs})
                if kmin is not None:
                    expect = max(kmin, lb)
                    if args["weight_type"] == "int" and len(sol) != expect:
                        V("not_minimum", {"size": len(sol), "minimum": kmin, "lowerbound": lb, "witness": wit})
                    if args["weight_type"] == "float" and len(sol) > expect:
                        V("not_minimum", {"size": len(sol), "integer_minimum": kmin, "lowerbound": lb, "witness": wit})
        else:
            if fired == 0 and kmin is not None and exists:
                V("unsolved_although_solution_exists", {"minimum": kmin, "witness": wit, "numbers": nums, "total": total})
    else:
        universe, subsets = args["universe"], args["subsets"]
        weights = args.get("subset_weights") or [1] * len(subsets)
        best, sel = ref.min_set_cover_weight(universe, subsets, weights)
        if best is None:
            # no cover exists: anything but a claimed solution is acceptable
            if out["solved"]:
                V("solved_although_no_cover_exists", {"solution": repr(out.get("solution"))[:200], "subsets": subsets})
        elif out["exc"]:
            V("exception", {"exc": out["exc"], "frame": out.get("frame"), "msg": out.get("msg")})
        elif out["solved"]:
            sol = out["solution"]
            if not isinstance(sol, list) or any(not isinstance(i, int) or i < 0 or i >= len(subsets) for i in sol) or len(set(sol)) != len(sol):
                V("malformed", {"solution": repr(sol)[:200]})
            else:
                cov = set()
                for i in sol:
                    cov.update(subsets[i])
                if not all(u in cov for u in universe):
                    V("not_a_cover", {"solution": sol, "subsets": subsets})
                elif abs(sum(weights[i] for i in sol) - best) > 1e-9:
                    V("not_minimum_weight", {"solution": sol, "weight": sum(weights[i] for i in sol), "minimum": best, "witness": sel})
        elif fired == 0:
            V("unsolved_although_cover_exists", {"minimum": best})
        if out["solved"] and any(inv.get("delivered") not in ("kOptimal",) for inv in sim.invocations[-1:]):
            V("solved_on_inconclusive_reply", {"delivered": sim.invocations[-1].get("delivered"), "solution": out.get("solution")})
    # solver-truthfulness cross-check (DESIGN.md section 9): HiGHS's presolve sometimes declares a feasible size
    # infeasible (numbers [6,16,8,12], total 10, multiplicity 2: k=2 "infeasible" with presolve, [4,6] without).
    # A wrong size / an unsolved instance is reported only if no native solver configuration gets it right.
    suspect = [v for v in vs if v["clause"] in ("C15.not_minimum", "C15.unsolved_although_solution_exists", "C15.not_minimum_weight", "C15.unsolved_although_cover_exists")]
    if suspect and fired == 0:
        from sim import crosscheck
        good = False
        for c in crosscheck.CONFIGS[1:]:
            cfg = dict(spec["sim"], faults=[], reply="canonical")
            cfg.update(c)
            s2 = W.SimWorld(1, cfg)
            try:
                with W.active(s2):
                    m2 = models.build(world)
                    m2.solve()
                    if m2.is_solved():
                        sol2 = m2.get_solution()
                        if cname == "MinGenSet" and kmin is not None and len(sol2) == max(kmin, lb):
                            good = True
                        if cname == "MinSetCover" and abs(sum(weights[i] for i in sol2) - best) <= 1e-9:
                            good = True
            except W.Discard:
                pass
            except Exception:
                pass
            if good:
                break
        if good:
            vs = [v for v in vs if v not in suspect]
            counters["solver_not_truthful_discrepancy_dismissed"] = 1
    seen, uniq = set(), []
    for v in vs:
        if v.key not in seen:
            seen.add(v.key)
            uniq.append(dict(v))
    varied = sim.probes.get("alt_optimum_differs", 0) + sim.probes.get("noise_applied", 0) + fired
    counters["status:" + ("solved" if out["solved"] else ("exc" if out["exc"] else "unsolved"))] = 1
    return {"violations": uniq, "digest": digest([sim.history.digest(), out.get("solution"), out["exc"]]),
            "sig": digest([args, spec["sim"]["reply"], spec["sim"]["faults"]]),
            "nontrivial": bool(out["solved"] and varied > 0), "fired": dict(sim.fired), "probes": dict(sim.probes),
            "sim_s": sim.sim_seconds, "invocations": len(sim.invocations), "counters": counters,
            "summary": {"solved": out["solved"], "solution": out.get("solution"), "exc": out["exc"]}}


def sample_view(spec, outcome):
    return {"class": spec["world"]["class"], "args": spec["world"]["args"], "sim": spec["sim"], "summary": outcome.get("summary")}


def shrink(spec):
    s = spec
    if s["sim"]["faults"]:
        c = copy.deepcopy(s); c["sim"]["faults"] = []; yield c
    if s["sim"]["reply"] != "canonical":
        for r in ("canonical", "noise", "alt"):
            if r != s["sim"]["reply"]:
                c = copy.deepcopy(s); c["sim"]["reply"] = r; yield c
    a = s["world"]["args"]
    if s["world"]["class"] == "MinGenSet":
        for i in range(len(a["numbers"])):
            if len(a["numbers"]) > 1:
                c = copy.deepcopy(s); del c["world"]["args"]["numbers"][i]; yield c
        for k in ("partition_constraints", "remove_complement_values"):
            if k in a:
                c = copy.deepcopy(s); del c["world"]["args"][k]; yield c
        if a.get("lowerbound", 1) > 1:
            c = copy.deepcopy(s); c["world"]["args"]["lowerbound"] = 1; yield c
        if a.get("max_multiplicity", 1) > 1:
            c = copy.deepcopy(s); c["world"]["args"]["max_multiplicity"] -= 1; yield c
    else:
        for i in range(len(a["subsets"])):
            if len(a["subsets"]) > 1:
                c = copy.deepcopy(s)
                del c["world"]["args"]["subsets"][i]
                if "subset_weights" in a:
                    del c["world"]["args"]["subset_weights"][i]
                yield c
