"""JSON world description -> flowpaths model instance, and caller-side observations."""
import copy

from . import gen

GRAPH_CLASSES = {
    "MinFlowDecomp", "kFlowDecomp", "kMinPathError", "kLeastAbsErrors", "kPathCover", "MinPathCover",
    "MinFlowDecompCycles", "kFlowDecompCycles", "kMinPathErrorCycles", "kLeastAbsErrorsCycles",
    "kPathCoverCycles", "MinPathCoverCycles", "MinErrorFlow",
}
DAG_CLASSES = {"MinFlowDecomp", "kFlowDecomp", "kMinPathError", "kLeastAbsErrors", "kPathCover", "MinPathCover"}
CYCLIC_CLASSES = {"MinFlowDecompCycles", "kFlowDecompCycles", "kMinPathErrorCycles", "kLeastAbsErrorsCycles",
                  "kPathCoverCycles", "MinPathCoverCycles"}
COVER_CLASSES = {"kPathCover", "MinPathCover", "kPathCoverCycles", "MinPathCoverCycles"}
FLOW_DECOMP_CLASSES = {"MinFlowDecomp", "kFlowDecomp", "MinFlowDecompCycles", "kFlowDecompCycles"}
MIN_SEARCH_CLASSES = {"MinFlowDecomp", "MinFlowDecompCycles", "MinPathCover", "MinPathCoverCycles", "MinGenSet"}


def cls_of(name):
    import flowpaths as fp
    return getattr(fp, name)


def _tup_edges(lst):
    out = []
    for e in lst:
        if isinstance(e, (list, tuple)):
            out.append(tuple(e))
        else:
            out.append(e)
    return out


def decode_args(args):
    """JSON-able args -> real constructor kwargs (fresh objects every call)."""
    a = copy.deepcopy(args)
    out = {}
    for k, v in a.items():
        if k == "weight_type":
            out[k] = {"int": int, "float": float}.get(v, v)
        elif k in ("subpath_constraints", "subset_constraints"):
            out[k] = [_tup_edges(c) if isinstance(c, list) else c for c in v]
        elif k in ("elements_to_ignore", "trusted_edges_for_safety"):
            out[k] = _tup_edges(v) if v is not None else None
        elif k == "error_scaling":
            out[k] = {(tuple(e) if isinstance(e, list) else e): s for e, s in v}
        elif k == "model_type":
            out[k] = cls_of(v)
        elif k == "path_length_ranges":
            out[k] = [tuple(r) for r in v]
        else:
            out[k] = v
    return out


def build(world, shared=None):
    """Construct the model of a world.  ``shared`` optionally maps argument names to
    already decoded caller-owned objects (used by the history checks for aliasing)."""
    cname = world["class"]
    cls = cls_of(cname)
    kwargs = decode_args(world.get("args", {}))
    if shared:
        kwargs.update(shared)
    if cname in GRAPH_CLASSES:
        attr = kwargs.get("flow_attr", "flow")
        G = shared.get("G") if shared and "G" in shared else gen.to_nx(world["graph"], attr=attr if cname not in COVER_CLASSES else "flow")
        kwargs.pop("G", None)
        if cname in COVER_CLASSES:
            kwargs.pop("flow_attr", None)
            return cls(G, **kwargs)
        kwargs.setdefault("flow_attr", "flow")
        return cls(G, **kwargs)
    if cname == "NumPathsOptimization":
        inner = kwargs.pop("inner_graph", None)
        attr = kwargs.get("flow_attr", "flow")
        G = shared.get("G") if shared and "G" in shared else gen.to_nx(world["graph"], attr=attr)
        kwargs.pop("G", None)
        kwargs.setdefault("flow_attr", "flow")
        return cls(G=G, **kwargs)
    return cls(**kwargs)


def routes_key(cname):
    return "walks" if cname in CYCLIC_CLASSES else "paths"


def observe(model, cname):
    """What the caller can see: solved flag, objective, solution (JSON-able) or the
    exception class raised by the getters."""
    from .core import canon
    obs = {}
    try:
        obs["solved"] = bool(model.is_solved())
    except Exception as e:
        obs["solved"] = False
        obs["is_solved_exc"] = type(e).__name__
    try:
        sol = model.get_solution()
        obs["solution"] = _sol_json(sol)
    except SystemExit:
        raise
    except Exception as e:
        obs["solution_exc"] = type(e).__name__
    try:
        if hasattr(model, "get_objective_value"):
            obs["objective"] = canon(model.get_objective_value())
        elif cname == "MinSetCover":
            # the minimised quantity: total weight of the chosen subsets
            obs["objective"] = canon(sum(model.subset_weights[i_] for i_ in model.get_solution()))
        else:
            s_ = model.get_solution()
            obs["objective"] = len(s_) if s_ is not None else None
    except SystemExit:
        raise
    except Exception as e:
        obs["objective_exc"] = type(e).__name__
    return obs


def _sol_json(sol):
    from .core import canon
    if isinstance(sol, dict):
        out = {}
        for k, v in sol.items():
            if k == "graph":
                out[k] = sorted([[u, w, canon(d)] for u, w, d in v.edges(data=True)])
            elif k.startswith("_"):
                continue
            else:
                out[k] = canon(v)
        return out
    return canon(sol)
