"""Baton-passing thread scheduler (DESIGN.md 2.4).

While active, ``concurrent.futures.ThreadPoolExecutor`` is a SimExecutor and
``threading.Lock`` (when called from the traced files) a SimLock.  ``SimExecutor.map``
starts min(max_workers, n) *real* threads that pull tasks FIFO, but only the thread holding
the baton runs.  Pre-emption points: every ``sys.settrace`` line (optionally opcode) event in
the traced files, every SimLock acquire/release, every task pull, thread start and end.  At
each point the seeded scheduler decides who continues.  The simulator's own primitives come
from ``_thread`` so they are not affected by the patches.
"""
import _thread
import random
import sys
import hashlib


class Deadlock(Exception):
    pass


class Livelock(Exception):
    pass


class _Worker:
    def __init__(self, tid):
        self.tid = tid
        self.go = _thread.allocate_lock()
        self.go.acquire()
        self.state = "new"       # new | runnable | blocked | done
        self.blocked_on = None
        self.task = None


class Scheduler:
    def __init__(self, seed, policy="random", switch_p=0.1, pct_changes=2, decisions=None,
                 trace_suffixes=("flowpaths/utils/safetypathcovers.py",), opcode=False, max_steps=2_000_000, pct_horizon=600):
        self.rng = random.Random(seed)
        self.policy = policy
        self.switch_p = switch_p
        self.pct_changes = pct_changes
        self.pct_horizon = max(20, int(pct_horizon))
        self.forced = {int(k): v for k, v in (decisions or {}).items()} if decisions is not None else None
        self.trace_suffixes = tuple(trace_suffixes)
        self.opcode = opcode
        self.max_steps = max_steps
        self.main = _thread.allocate_lock()
        self.main.acquire()
        self.workers = []
        self.step = 0
        self.switches = []         # (step, tid) at every context switch
        self.current = None
        self.total_steps = 0
        self.maps = 0
        self.error = None
        self._prio = None
        self._change_at = None
        self.lock_ops = 0
        self.pool_snapshots = []

    # ---- called from worker threads ------------------------------------
    def _yield(self, w):
        """Hand the baton back to the scheduler and wait to be resumed."""
        self.main.release()
        w.go.acquire()

    def yield_point(self):
        w = self._me()
        if w is None:
            return
        self._yield(w)

    def _me(self):
        ident = _thread.get_ident()
        for w in self.workers:
            if getattr(w, "ident", None) == ident:
                return w
        return None

    # ---- tracing ---------------------------------------------------------
    def _global_trace(self, frame, event, arg):
        fn = frame.f_code.co_filename
        if fn.endswith(self.trace_suffixes):
            if self.opcode:
                frame.f_trace_opcodes = True
            return self._local_trace
        return None

    def _local_trace(self, frame, event, arg):
        if event == "line" or (self.opcode and event == "opcode"):
            self.yield_point()
        return self._local_trace

    # ---- scheduling --------------------------------------------------------
    def _pick(self, runnable):
        self.step += 1
        if self.step > self.max_steps:
            raise Livelock("more than %d scheduling steps" % self.max_steps)
        if self.forced is not None:
            tid = self.forced.get(self.step)
            if tid is not None:
                for w in runnable:
                    if w.tid == tid:
                        return w
            # fall back: keep current if runnable, else first runnable
            for w in runnable:
                if w is self.current:
                    return w
            return runnable[0]
        if self.policy == "pct":
            if self._prio is None:
                n = len(self.workers)
                pr = list(range(n))
                self.rng.shuffle(pr)
                self._prio = {w.tid: pr[i] + self.pct_changes + 1 for i, w in enumerate(self.workers)}
                # priority change points inside the expected length of the run (PCT needs them to land in it)
                self._change_at = sorted(self.step + self.rng.randrange(1, self.pct_horizon) for _ in range(self.pct_changes))
            while self._change_at and self.step >= self._change_at[0]:
                self._change_at.pop(0)
                if self.current is not None:
                    self._prio[self.current.tid] = len(self._change_at)  # lowest so far
            return max(runnable, key=lambda w: self._prio[w.tid])
        # random walk
        cur = self.current if self.current in runnable else None
        if cur is not None and (len(runnable) == 1 or self.rng.random() >= self.switch_p):
            return cur
        others = [w for w in runnable if w is not cur] or runnable
        return self.rng.choice(others)

    def run_map(self, fn, items, max_workers):
        """The scheduler loop, executed by the thread that called executor.map."""
        self.maps += 1
        items = list(items)
        n = len(items)
        results = [None] * n
        excs = [None] * n
        queue = list(range(n))
        nthreads = max(1, min(max_workers or 1, n))
        self.workers = [_Worker(t) for t in range(nthreads)]
        self.current = None
        self._prio = None
        sched = self

        def body(w):
            w.ident = _thread.get_ident()
            w.go.acquire()                   # wait for the first baton
            sys.settrace(sched._global_trace)
            try:
                while True:
                    sched._yield_from_body(w)        # pulling a task is a scheduling point
                    if not queue:
                        break
                    i = queue.pop(0)
                    w.task = i
                    try:
                        results[i] = fn(items[i])
                    except BaseException as e:  # delivered through map(), like the real pool
                        excs[i] = e
            finally:
                sys.settrace(None)
                w.state = "done"
                sched.main.release()

        for w in self.workers:
            w.state = "runnable"
            _thread.start_new_thread(body, (w,))
        # worker threads block on their go lock first; wait until all have an ident
        import time as _t
        while any(not hasattr(w, "ident") for w in self.workers):
            _t.sleep(0.0005)

        try:
            while True:
                alive = [w for w in self.workers if w.state != "done"]
                if not alive:
                    break
                runnable = [w for w in alive if w.state == "runnable"]
                if not runnable:
                    raise Deadlock("no runnable thread, %d blocked" % len(alive))
                w = self._pick(runnable)
                if w is not self.current:
                    self.switches.append((self.step, w.tid))
                self.current = w
                w.go.release()
                self.main.acquire()          # wait until it yields, blocks or finishes
        except (Deadlock, Livelock) as e:
            self.error = e
            # leave the parked threads parked (daemon-like: the process is a throw-away child)
            raise
        self.total_steps += self.step
        for i in range(n):
            if excs[i] is not None:
                raise excs[i]
        return results

    def _yield_from_body(self, w):
        self.main.release()
        w.go.acquire()

    def interleaving_digest(self):
        h = hashlib.sha256(repr(self.switches).encode()).hexdigest()[:16]
        return h


class SimLock:
    """Lock whose acquire/release are scheduling points; blocking makes the thread
    non-runnable until the holder releases."""

    def __init__(self, sched):
        self.s = sched
        self.owner = None
        self.waiters = []

    def acquire(self, blocking=True, timeout=-1):
        s = self.s
        w = s._me()
        s.lock_ops += 1
        if w is None:
            # not a scheduled thread (e.g. the caller thread): plain semantics
            if self.owner is None:
                self.owner = "main"
                return True
            raise Deadlock("caller thread would block on a SimLock")
        s._yield(w)                       # pre-emption point before the acquire
        while self.owner is not None:
            if not blocking:
                return False
            w.state = "blocked"
            w.blocked_on = self
            self.waiters.append(w)
            s._yield(w)
        self.owner = w.tid
        return True

    def release(self):
        s = self.s
        s.lock_ops += 1
        self.owner = None
        for x in self.waiters:
            x.state = "runnable"
            x.blocked_on = None
        self.waiters = []
        w = s._me()
        if w is not None:
            s._yield(w)                   # pre-emption point after the release

    def locked(self):
        return self.owner is not None

    def __enter__(self):
        self.acquire()
        return self

    def __exit__(self, *a):
        self.release()
        return False


class _LazyFuture:
    """Future of SimExecutor.submit: the task runs (under the scheduler, together with every other pending submission of
    its executor) when somebody first needs an answer - result(), exception(), done(), as_completed(), wait(), or the
    executor's shutdown / __exit__."""

    def __init__(self, ex):
        self._ex = ex
        self._done = False
        self._res = None
        self._exc = None
        self.completion_index = None
        self._callbacks = []

    def _settle(self):
        if not self._done:
            self._ex._flush()

    def result(self, timeout=None):
        self._settle()
        if self._exc is not None:
            raise self._exc
        return self._res

    def exception(self, timeout=None):
        self._settle()
        return self._exc

    def done(self):
        self._settle()
        return True

    def running(self):
        return False

    def cancelled(self):
        return False

    def cancel(self):
        return False

    def add_done_callback(self, fn):
        if self._done:
            fn(self)
        else:
            self._callbacks.append(fn)


class SimExecutor:
    def __init__(self, sched, max_workers=None):
        self.s = sched
        self.max_workers = max_workers
        self.pending = []

    def __enter__(self):
        return self

    def __exit__(self, *a):
        self._flush()
        return False

    def map(self, fn, *iterables):
        items = list(zip(*iterables))
        return self.s.run_map(lambda args: fn(*args), items, self.max_workers)

    def submit(self, fn, *a, **kw):
        f = _LazyFuture(self)
        self.pending.append((f, fn, a, kw))
        return f

    def _flush(self):
        batch, self.pending = self.pending, []
        if not batch:
            return
        order = []

        def run(item):
            f, fn, a, kw = item
            try:
                f._res = fn(*a, **kw)
            except BaseException as e:  # delivered through the future
                f._exc = e
            f._done = True
            order.append(f)             # completion order under the seeded schedule
            f.completion_index = (self.s.maps, len(order))
        self.s.run_map(run, batch, self.max_workers)
        for f in order:
            for cb in f._callbacks:
                cb(f)

    def shutdown(self, wait=True, **kw):
        self._flush()


def sim_as_completed(fs, timeout=None):
    fs = list(fs)
    for f in fs:
        if isinstance(f, _LazyFuture):
            f._settle()
    lazy = sorted([f for f in fs if isinstance(f, _LazyFuture)], key=lambda f: f.completion_index)
    for f in lazy:
        yield f
    for f in fs:
        if not isinstance(f, _LazyFuture):
            yield f


def sim_wait(fs, timeout=None, return_when="ALL_COMPLETED"):
    import collections
    fs = list(fs)
    for f in fs:
        if isinstance(f, _LazyFuture):
            f._settle()
    return collections.namedtuple("DoneAndNotDoneFutures", "done not_done")(set(fs), set())


class scheduled:
    """Context manager installing the scheduler into concurrent.futures / threading."""

    def __init__(self, sched):
        self.s = sched

    def __enter__(self):
        import concurrent.futures as cf
        import threading
        self._cf, self._th = cf, threading
        self._old_exec = cf.ThreadPoolExecutor
        self._old_lock = threading.Lock
        self._old_ac, self._old_wait = cf.as_completed, cf.wait
        cf.as_completed, cf.wait = sim_as_completed, sim_wait
        s = self.s
        real_lock = _thread.allocate_lock

        def executor_factory(max_workers=None, *a, **kw):
            return SimExecutor(s, max_workers)

        def lock_factory():
            f = sys._getframe(1)
            if f.f_code.co_filename.endswith(s.trace_suffixes):
                return SimLock(s)
            return real_lock()

        cf.ThreadPoolExecutor = executor_factory
        threading.Lock = lock_factory
        return s

    def __exit__(self, *a):
        self._cf.ThreadPoolExecutor = self._old_exec
        self._th.Lock = self._old_lock
        self._cf.as_completed, self._cf.wait = self._old_ac, self._old_wait
        return False
