"""Known findings: read-only at run time.  A violation is suppressed to a KNOWN-FINDING
line only if property, clause and the finding's structural predicate all match."""
import json
import os
import re

PATH = os.path.join(os.path.dirname(os.path.dirname(os.path.abspath(__file__))), "known_findings.json")


def load():
    if not os.path.exists(PATH):
        return []
    return json.load(open(PATH)).get("findings", [])


def _pred(name, violation, spec):
    fn = PREDICATES.get(name)
    return bool(fn and fn(violation, spec))


PREDICATES = {}


def predicate(fn):
    PREDICATES[fn.__name__] = fn
    return fn


def match(findings, violation, spec):
    for f in findings:
        if f["property"] != violation["property"] or f["clause"] != violation["clause"]:
            continue
        m = f.get("match", {})
        if "fingerprint" in m and not re.fullmatch(m["fingerprint"], str(violation["fingerprint"])):
            continue
        if "class" in m and spec.get("world", {}).get("class") != m["class"]:
            continue
        if "predicate" in m and not _pred(m["predicate"], violation, spec):
            continue
        return f
    return None
