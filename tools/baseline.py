"""Run the repository's pinned baseline and compare with BASELINE.json's stable_pass list."""
import json, subprocess, sys, tempfile, os, xml.etree.ElementTree as ET
b = json.load(open("/root/.vp/BASELINE.json"))
x = tempfile.mktemp(suffix=".xml", dir="/tmp")
cmd = b["cmd"].replace("<file>", x)
subprocess.run(cmd, shell=True, stdout=subprocess.DEVNULL, stderr=subprocess.DEVNULL)
ok = set()
for tc in ET.parse(x).getroot().iter("testcase"):
    if not any(c.tag in ("failure", "error", "skipped") for c in tc):
        ok.add(tc.get("classname") + "::" + tc.get("name"))
os.remove(x)
# the example tests rewrite a tracked pdf in the repository root: put it back
subprocess.run(["git", "-C", "/repo", "checkout", "--", "safe_sequences_example.pdf"], capture_output=True)
missing = [t for t in b["stable_pass"] if t not in ok]
print("stable_pass=%d passed_now=%d missing=%s" % (len(b["stable_pass"]), len(ok & set(b["stable_pass"])), missing))
sys.exit(1 if missing else 0)
